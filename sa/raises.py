"""
May-raise (exception-escape) analysis (C04-D1/D2, C06-D2, C15-D4).

For every function of the package a summary {exception class -> [origin]} of the classes that
may propagate out is computed by a syntax-directed walk (try/except filters by class, handler
bodies are analysed as unprotected code, a property load is a call of its getter) and
propagated over the call graph to a fixpoint.  Subscripts with constant index on byte strings
are discharged by length facts (interval reasoning over the gated terms and path conditions of
sa/symeval.py; object invariants established by guards in the constructor; requested sizes of
read-primitive results).

Typing assumptions (listed in the evidence): payloads and stream results are bytes, options are
ints - so TypeError from well-typed operations is out of scope; memory/recursion errors are
not modelled.
"""

from __future__ import annotations

import ast
from dataclasses import dataclass, field

from .domains import CatContext
from .engine import Engine
from .front import FuncInfo, norm, walk_no_nested
from .resolve import BUILTIN, EXTERNAL_USER, UNKNOWN
from .symeval import NEGATE, SymEval, is_const, show

LIBRARY = ("ParameterError", "RTCMParseError", "RTCMStreamError", "RTCMMessageError", "RTCMTypeError")

# builtin exception hierarchy (child -> parents)
PARENTS = {
    "IndexError": ("LookupError",), "KeyError": ("LookupError",), "LookupError": ("Exception",),
    "ZeroDivisionError": ("ArithmeticError",), "OverflowError": ("ArithmeticError",), "ArithmeticError": ("Exception",),
    "UnicodeDecodeError": ("UnicodeError",), "UnicodeError": ("ValueError",), "ValueError": ("Exception",),
    "AttributeError": ("Exception",), "TypeError": ("Exception",), "StopIteration": ("Exception",), "AssertionError": ("Exception",),
    "TimeoutError": ("OSError",), "ConnectionError": ("OSError",), "OSError": ("Exception",), "EOFError": ("Exception",),
    "RuntimeError": ("Exception",), "NotImplementedError": ("RuntimeError",), "zlibError": ("Exception",), "error": ("Exception",),
    "Exception": ("BaseException",), "NameError": ("Exception",), "ImportError": ("Exception",),
}
for _c in LIBRARY:
    PARENTS[_c] = ("Exception",)


def is_subclass(c: str, parent: str) -> bool:
    if c == parent or parent == "BaseException":
        return True
    seen, todo = set(), [c]
    while todo:
        x = todo.pop()
        if x == parent:
            return True
        if x in seen:
            continue
        seen.add(x)
        todo.extend(PARENTS.get(x, ("Exception",) if x not in ("BaseException",) else ()))
    return False


@dataclass(frozen=True)
class Raise:
    cls: str  # exception class name, or "param:<name>" for `raise <parameter>`
    origin: str  # human readable construct
    func: str
    line: int
    via: tuple = field(default=(), compare=False)  # one call chain by which it escapes (outermost first)
    tag: str = ""  # e.g. "mode=raise" for the dispatcher's guarded re-raise


METHOD_RAISES = {"pop": ("IndexError", "KeyError"), "remove": ("ValueError",), "index": ("ValueError",), "decode": ("UnicodeDecodeError",),
                 "popitem": ("KeyError",), "to_bytes": ("OverflowError",)}
CALL_RAISES = {"int": ("ValueError",), "chr": ("ValueError",), "next": ("StopIteration",), "decompress": ("zlibError",), "float": ("ValueError",), "bytes.fromhex": ("ValueError",)}


class MayRaise:
    def __init__(self, eng: Engine):
        self.eng = eng
        self.repo = eng.repo
        self.res = eng.res
        self.summ: dict[str, set[Raise]] = {q: set() for q in self.repo.funcs}
        self.discharged: dict[int, str] = {}  # id(Subscript node) -> reason
        self.undischarged: dict[int, str] = {}
        self.assumptions: set[str] = set()
        self._init_fields = {}
        self._payload_min = None
        self._param_len: dict[tuple, int] = {}
        self._index_facts()
        self._fixpoint()

    # ------------------------------------------------------------------ definite fields
    def init_fields(self, clsq: str) -> set[str]:
        if clsq in self._init_fields:
            return self._init_fields[clsq]
        out = set()
        init = self.repo.funcs.get(f"{clsq}.__init__")
        if init:
            for n in walk_no_nested(init.node):
                if isinstance(n, ast.Attribute) and isinstance(n.ctx, ast.Store) and isinstance(n.value, ast.Name) and n.value.id == init.params[0]:
                    out.add(n.attr)
                if isinstance(n, ast.Call) and isinstance(n.func, ast.Attribute) and n.func.attr == "__setattr__" and n.args and isinstance(n.args[0], ast.Constant):
                    out.add(n.args[0].value)
        self._init_fields[clsq] = out
        return out

    # ------------------------------------------------------------------ length facts for subscripts
    def payload_invariant(self) -> int:
        """k such that the constructor raises a library exception when len(payload) < k before doing anything else with it."""
        if self._payload_min is not None:
            return self._payload_min
        eng = self.eng
        init = eng.symeval(f"{eng.message_cls}.__init__")
        k = 0
        first_self_call = min([e.seq for e in init.effects if e.kind == "call" and e.term[2][0] == "attr" and e.term[2][1] == ("self",)] or [10**9])
        for e in init.effects:
            if e.kind == "raise" and e.seq < first_self_call and e.term[0] == "call" and e.term[2][0] == "class" and e.term[2][1].startswith("exceptions."):
                for c, pol in e.guards:
                    b = _len_bound_literal(c, pol, want_upper=True)
                    if b and b[0] in (("param", "payload"),) or (b and b[0][0] in ("field", "fieldv")):
                        k = max(k, b[1] + 1)  # raise when len <= b  => afterwards len >= b+1
                if len(e.dnf or ()) > 1:
                    # one raise reached on several paths (a validation status checked once): a path made of the length test and of "the payload is there"
                    # alone covers every payload that is too short
                    for conj in e.dnf:
                        for c, pol in conj:
                            b = _len_bound_literal(c, pol, want_upper=True)
                            if not (b and (b[0] in (("param", "payload"),) or b[0][0] in ("field", "fieldv"))):
                                continue
                            rest = [(c2, p2) for c2, p2 in conj if (c2, p2) != (c, pol)]
                            present = lambda c2, p2: c2[0] == "cmp" and c2[3] == ("const", None) and ((c2[1] in ("is not", "!=") and p2) or (c2[1] in ("is", "==") and not p2))  # noqa: E731
                            if all(present(c2, p2) for c2, p2 in rest):
                                k = max(k, b[1] + 1)
        self._payload_min = k
        return k

    def _index_facts(self):
        eng = self.eng
        # parameter length lower bounds for private functions: min over package call sites
        rm = None
        prim = eng.repo.func(eng.read_primitive)

        def length_of(t, depth=0):
            if t[0] == "call" and t[2] == ("attr", ("self",), prim.name) and len(t[3]) == 1 and is_const(t[3][0]) and isinstance(t[3][0][1], int):
                return t[3][0][1]
            if t[0] == "param" and getattr(self, "_cur_q", None) and (self._cur_q, t[1]) in self._param_len and self._param_len[(self._cur_q, t[1])] > 0:
                return self._param_len[(self._cur_q, t[1])]  # at least that many bytes at every call site
            if t[0] == "loopout" and len(t) == 3 and depth < 3 and getattr(self, "_cur_se", None) is not None:
                # the value a `while True` loop leaves in a variable: what the variable holds at its breaks
                info = self._cur_se.loop_info.get(t[1]) or {}
                tst = info.get("test")
                brk = [st_.env.get(t[2]) for k_, st_ in info.get("ends", []) if k_ == "break"]
                if tst is not None and is_const(tst) and tst[1] and brk and all(x is not None for x in brk):
                    ls = {length_of(x, depth + 1) if x[0] in ("call", "loopout") else self.cat.length(x) for x in brk}
                    if len(ls) == 1 and isinstance(next(iter(ls)), int):
                        return next(iter(ls))
            return None

        self.cat = CatContext(length_of)
        # pass 1: argument lengths at call sites of private methods
        arglens: dict[tuple, list] = {}
        for f in self.repo.all_funcs():
            se = eng.symeval(f.qualname)
            self._cur_se = se
            for e in se.effects:
                if e.kind == "call" and e.term[2][0] == "attr" and e.term[2][1] == ("self",) and f.cls:
                    callee = self.repo.funcs.get(f"{f.module}.{f.cls}.{e.term[2][2]}")
                    if callee is None or not callee.name.startswith("_") or callee.name.startswith("__"):
                        continue
                    params = callee.params[1:]
                    for i, a in enumerate(e.term[3]):
                        if i < len(params):
                            n = self.cat.length(a)
                            arglens.setdefault((callee.qualname, params[i]), []).append(n if isinstance(n, int) else 0)
        self._cur_se = None
        for key, vals in arglens.items():
            self._param_len[key] = min(vals)
        # pass 2: evaluate every constant-index subscript
        for f in self.repo.all_funcs():
            self._subscripts(f)

    def _base_len(self, f: FuncInfo, base) -> tuple[int, str]:
        """lower bound of len(base) from the term alone."""
        n = self.cat.length(base)
        if isinstance(n, int):
            return n, "length of the read results / constants it is built from"
        if base[0] == "param" and (f.qualname, base[1]) in self._param_len:
            return self._param_len[(f.qualname, base[1])], "every package call site passes at least that many bytes"
        if base[0] in ("field", "fieldv") and f.cls and f"{f.module}.{f.cls}" == self.eng.message_cls and f.name != "__init__":
            from .rules.C07 import payload_field

            pf, _ = payload_field(self.eng)
            if base[1] == pf:
                k = self.payload_invariant()
                return k, f"object invariant len(payload) >= {k} from the constructor's guard"
        if is_const(base) and isinstance(base[1], (bytes, str, tuple, list)):
            return len(base[1]), "constant"
        return 0, ""

    def _subscripts(self, f: FuncInfo):
        records = []
        self._cur_q = f.qualname

        def hook(node, base, idx, st, trys, handler):
            records.append((node, base, idx, st.dnf))

        try:
            kw = {}
            if f.cls:
                kw["frozen_fields"] = self.eng.init_only_fields(f"{f.module}.{f.cls}")
            pl = self.eng.param_lengths(f.qualname) if (f.cls and f.name.startswith("_") and not f.name.startswith("__")) else None
            SymEval(self.eng.ce, f, on_index=hook, inline=self.eng.inline_policy, param_len=pl, **kw).run()
        except Exception:
            return
        per_node = {}
        for node, base, idx, dnf in records:
            verdict = None
            if is_const(idx) and isinstance(idx[1], int) and not isinstance(idx[1], bool):
                i = idx[1]
                need = i + 1 if i >= 0 else -i
                lo, why = self._base_len(f, base)
                ok_all = True
                for conj in dnf:
                    lo2 = lo
                    for c, pol in conj:
                        b = _len_bound_literal(c, pol, want_upper=False)
                        if b and b[0] == base:
                            lo2 = max(lo2, b[1])
                    if lo2 < need:
                        ok_all = False
                verdict = (why or "path condition bounds the length") if ok_all else None
                if base[0] == "gval" or (is_const(base) and isinstance(base[1], (tuple, list, dict))):
                    verdict = None
            seq = base[1] if is_const(base) else (base[1].v if base[0] == "gval" else None)
            if isinstance(seq, (tuple, list, str, bytes)) and not is_const(idx):
                r = _nonneg_upper(idx)
                if r is not None and r < len(seq):
                    verdict = f"index masked to 0..{r}, constant sequence of {len(seq)} entries"
            if base[0] == "gval" and isinstance(base[1].v, dict) and is_const(idx):
                verdict = "constant key present in the table" if idx[1] in base[1].v else None
            per_node.setdefault(id(node), []).append((verdict, node))
        for nid, lst in per_node.items():
            if all(v for v, _ in lst):
                self.discharged[nid] = lst[0][0]
            else:
                self.undischarged[nid] = "no length fact"

    # ------------------------------------------------------------------ summaries
    def _fixpoint(self):
        for _ in range(12):
            changed = False
            for f in self.repo.all_funcs():
                new = self._function(f)
                if new != self.summ[f.qualname]:
                    self.summ[f.qualname] = new
                    changed = True
            if not changed:
                break

    def _unbound(self, f: FuncInfo) -> set:
        """ids of the Name nodes the term evaluator found unbound (a local of the function with no binding on the path)"""
        cache = self.__dict__.setdefault("_unbound_cache", {})
        if f.qualname not in cache:
            try:
                cache[f.qualname] = {id(n) for n in self.eng.symeval(f.qualname).undef_reads}
            except Exception:
                cache[f.qualname] = set()
        return cache[f.qualname]

    def _function(self, f: FuncInfo) -> set[Raise]:
        self._f = f
        self._selfname = f.params[0] if f.cls and not f.is_static and f.params else None
        self._sites = {id(s.node): s for s in self.res.sites(f)}
        return self._block(f.node.body, handler_exc=None)

    def _mk(self, cls, node, origin=None, tag=""):
        return Raise(cls, origin or norm(node)[:70], self._f.qualname, getattr(node, "lineno", 0), (), tag)

    def _block(self, stmts, handler_exc) -> set[Raise]:
        out = set()
        for s in stmts:
            out |= self._stmt(s, handler_exc)
        return out

    def _stmt(self, s, handler_exc) -> set[Raise]:
        out = set()
        if isinstance(s, ast.Try):
            body = self._block(s.body, handler_exc)
            remaining = set(body)
            for h in s.handlers:
                names = ["BaseException"] if h.type is None else [norm(t).split(".")[-1] for t in (h.type.elts if isinstance(h.type, ast.Tuple) else [h.type])]
                caught = {r for r in remaining if any(self._catches(r.cls, n) for n in names)}
                remaining -= caught
                hexc = (h.name, tuple(names), frozenset(caught))
                out |= self._block(h.body, hexc)
            out |= remaining
            out |= self._block(s.orelse, handler_exc)
            out |= self._block(s.finalbody, handler_exc)
            return out
        if isinstance(s, ast.If):
            return self._expr(s.test) | self._block(s.body, handler_exc) | self._block(s.orelse, handler_exc)
        if isinstance(s, ast.While):
            return self._expr(s.test) | self._block(s.body, handler_exc) | self._block(s.orelse, handler_exc)
        if isinstance(s, ast.For):
            return self._expr(s.iter) | self._block(s.body, handler_exc) | self._block(s.orelse, handler_exc)
        if isinstance(s, ast.With):
            for it in s.items:
                out |= self._expr(it.context_expr)
            return out | self._block(s.body, handler_exc)
        if isinstance(s, ast.Raise):
            if s.exc is None:
                if handler_exc is not None:
                    return {Raise(r.cls, r.origin, r.func, r.line, r.via, r.tag) for r in handler_exc[2]}
                return {self._mk("RuntimeError", s)}
            out |= self._expr(s.exc)
            e = s.exc
            name = None
            if isinstance(e, ast.Call):
                name = norm(e.func).split(".")[-1]
            elif isinstance(e, ast.Name):
                name = e.id
            if name is None:
                return out | {self._mk("Exception", s)}
            if handler_exc is not None and name == handler_exc[0]:
                # re-raise of the caught object: its classes are the handler's
                return out | {self._mk(n if n != "BaseException" else "Exception", s, tag=self._guard_tag(s)) for n in handler_exc[1]}
            if name in self._f.params:
                return out | {self._mk(f"param:{name}", s, tag=self._guard_tag(s))}
            return out | {self._mk(name, s)}
        if hasattr(ast, "Match") and isinstance(s, ast.Match):
            out |= self._expr(s.subject)
            for case in s.cases:
                if case.guard is not None:
                    out |= self._expr(case.guard)
                out |= self._block(case.body, handler_exc)
            return out
        if isinstance(s, ast.With):
            for it in s.items:
                out |= self._expr(it.context_expr)
            return out | self._block(s.body, handler_exc)
        if isinstance(s, ast.Assert):
            return self._expr(s.test) | {self._mk("AssertionError", s)}
        if isinstance(s, (ast.Assign, ast.AnnAssign, ast.AugAssign)):
            val = s.value
            if val is not None:
                out |= self._expr(val)
            targets = s.targets if isinstance(s, ast.Assign) else [s.target]
            for t in targets:
                out |= self._target(t)
                if isinstance(t, (ast.Tuple, ast.List)) and val is not None and not self._arity_ok(t, val):
                    out.add(self._mk("ValueError", s, f"unpacking into {len(t.elts)} names: {norm(s)[:50]}"))
            if isinstance(s, ast.AugAssign):
                out |= self._binop_raises(s.op, s.value, s)
            return out
        if isinstance(s, ast.Return):
            return self._expr(s.value) if s.value is not None else out
        if isinstance(s, ast.Expr):
            return self._expr(s.value)
        if isinstance(s, ast.Delete):
            for t in s.targets:
                out |= self._target(t)
                if isinstance(t, ast.Subscript) and not isinstance(t.slice, ast.Slice):
                    out.add(self._mk("KeyError", s))
            return out
        return out

    def _guard_tag(self, node) -> str:
        """'mode=raise' when the raise is dominated by a comparison with the ERR_RAISE constant."""
        p = self.repo.parent(node)
        child = node
        while p is not None and not isinstance(p, (ast.FunctionDef, ast.AsyncFunctionDef)):
            if isinstance(p, ast.If) and any(child is x for x in p.body):
                tests = [p.test]
                # a condition kept in a local that is bound once, before the test (`must_raise = mode == ERR_RAISE; if must_raise:`), is that condition
                fn = p
                while fn is not None and not isinstance(fn, (ast.FunctionDef, ast.AsyncFunctionDef)):
                    fn = self.repo.parent(fn)
                if fn is not None and isinstance(p.test, ast.Name):
                    binds = [a for a in ast.walk(fn) if isinstance(a, (ast.Assign, ast.AugAssign, ast.AnnAssign, ast.For, ast.NamedExpr, ast.With))
                             and any(isinstance(x, ast.Name) and x.id == p.test.id and isinstance(x.ctx, ast.Store) for x in ast.walk(a) if not isinstance(x, ast.expr) or isinstance(x, ast.Name))]
                    if len(binds) == 1 and isinstance(binds[0], ast.Assign) and len(binds[0].targets) == 1 and isinstance(binds[0].targets[0], ast.Name) \
                            and self.repo.parent(binds[0]) is fn and binds[0].lineno < p.lineno:
                        tests = [binds[0].value]
                conjuncts = []
                for t_ in tests:
                    conjuncts.extend(t_.values if (isinstance(t_, ast.BoolOp) and isinstance(t_.op, ast.And)) else [t_])  # the comparison itself, or a conjunct: not under `or` / `not`
                for n in conjuncts:
                    if isinstance(n, ast.Compare) and len(n.ops) == 1 and isinstance(n.ops[0], ast.Eq):
                        for side in (n.left, n.comparators[0]):
                            v = self.eng.const_of(self._f.module, side)
                            er = self.eng.ce.value("rtcmtypes_core", "ERR_RAISE")
                            if isinstance(side, ast.Name) and v == er and side.id == "ERR_RAISE":
                                return "mode=raise"
            child, p = p, self.repo.parent(p)
        return ""

    def _catches(self, cls: str, handler_name: str) -> bool:
        if cls.startswith("param:"):
            return handler_name in ("Exception", "BaseException")
        if cls == "External":
            return handler_name in ("Exception", "BaseException")
        return is_subclass(cls, handler_name)

    def _arity_ok(self, t, val) -> bool:
        n = len(t.elts)
        if isinstance(val, (ast.Tuple, ast.List)):
            return len(val.elts) == n
        if isinstance(val, ast.Call):
            s = self._sites.get(id(val))
            if s:
                ok = True
                any_pkg = False
                for q in s.targets:
                    fi = self.repo.funcs.get(q)
                    if fi is None:
                        continue
                    any_pkg = True
                    for r in walk_no_nested(fi.node):
                        if isinstance(r, ast.Return):
                            if not (isinstance(r.value, ast.Tuple) and len(r.value.elts) == n):
                                ok = False
                    if not ok:
                        # not evident from the return statements: decide on the returned *terms* (a result kept in a loop-carried variable, a call's result passed on)
                        ok = self._returns_arity(q, n, 0)
                return ok and any_pkg
        if isinstance(val, ast.Name) and val.id not in self._f.params:
            # a local bound once, to a value of that arity: `result = self.read(); raw, parsed = result`
            binds = [x for x in walk_no_nested(self._f.node) if isinstance(x, ast.Assign) and len(x.targets) == 1 and isinstance(x.targets[0], ast.Name) and x.targets[0].id == val.id]
            stores = [x for x in walk_no_nested(self._f.node) if isinstance(x, ast.Name) and x.id == val.id and isinstance(x.ctx, (ast.Store, ast.Del))]
            if len(binds) == 1 and len(stores) == 1 and not isinstance(binds[0].value, ast.Name):
                return self._arity_ok(t, binds[0].value)
        return False

    def _returns_arity(self, q: str, n: int, depth: int) -> bool:
        """Every value the function can return is a sequence of exactly n items."""
        from .symeval import is_const

        if depth > 3:
            return False
        try:
            se = self.eng.symeval(q)
        except Exception:  # noqa: BLE001
            return False
        rets = [e for e in se.effects if e.kind == "return"]
        if not rets or (se.final is not None and not se.final.dead):
            return False  # may fall off the end (returns None)

        def ok(t, excl_none=False, seen=frozenset()):
            if t[0] == "tuple":
                return len(t[1]) == n
            if is_const(t):
                return (isinstance(t[1], (tuple, list)) and len(t[1]) == n) or (excl_none and t[1] is None)
            if t[0] == "ite":
                return ok(t[2], excl_none, seen) and ok(t[3], excl_none, seen)
            if t[0] == "call" and t[2][0] == "attr" and t[2][1] == ("self",):
                fi = self.repo.funcs.get(f"{q.rsplit('.', 1)[0]}.{t[2][2]}")
                return fi is not None and self._returns_arity(fi.qualname, n, depth + 1)
            if t[0] == "call" and t[2][0] == "func":
                return self._returns_arity(t[2][1], n, depth + 1)
            if t[0] in ("loopout", "loop") and len(t) == 3:
                lid, v = t[1], t[2]
                if (lid, v) in seen:
                    return True
                info = se.loop_info.get(lid) or {}
                test = info.get("test")
                # `while v is None:` is left only with v not None
                none_excluded = test is not None and test[0] == "cmp" and test[1] == "is" and test[2] == ("loop", lid, v) and test[3] == ("const", None) and not [k for k, _ in info.get("ends", []) if k == "break"]
                vals = [st.env.get(v, ("loop", lid, v)) for _, st in info.get("ends", [])] + [st.env.get(v, ("loop", lid, v)) for st in info.get("tail_ends", [])]
                if not info.get("tail_ends") and not info.get("body_dead") and info.get("body_end") is not None:
                    vals.append(info["body_end"].get(v, ("loop", lid, v)))
                pre = (info.get("pre") or {}).get(v)
                if pre is None:
                    return False
                vals.append(pre)
                return all(x == ("loop", lid, v) or ok(x, none_excluded or excl_none, seen | {(lid, v)}) for x in vals)
            if t[0] == "maybe" and len(t) == 3:
                return all(ok(x, excl_none, seen) for x in t[2])
            return False

        return all(ok(e.term) for e in rets)

    def _only_mappings(self, name: str) -> bool:
        """every binding of `name` visible here (in the function if it binds it, else at module level) is a dict display, dict
        comprehension or dict(...) call, and the name is never rebound by augmented assignment / for / with / import"""
        scope = self._f.node
        binds = self._bindings(scope, name)
        if binds is None:
            return False
        if not binds and name not in self._f.params:
            scope = self.repo.modules[self._f.module].tree
            binds = self._bindings(scope, name, module=True)
        if not binds:
            return False
        return all(isinstance(v, (ast.Dict, ast.DictComp)) or (isinstance(v, ast.Call) and isinstance(v.func, ast.Name) and v.func.id in ("dict", "OrderedDict", "defaultdict")) for v in binds)

    @staticmethod
    def _bindings(scope, name, module=False):
        """values assigned to the plain name in the scope; None if it is bound some other way"""
        vals = []
        nodes = scope.body if module else list(walk_no_nested(scope))
        if module:
            nodes = [n for st in scope.body for n in ([st] if not isinstance(st, (ast.FunctionDef, ast.AsyncFunctionDef, ast.ClassDef)) else [])]
            nodes = [x for n in nodes for x in ast.walk(n)]
        for n in nodes:
            if isinstance(n, ast.Assign):
                for tg in n.targets:
                    if isinstance(tg, ast.Name) and tg.id == name:
                        vals.append(n.value)
                    elif any(isinstance(x, ast.Name) and x.id == name and isinstance(x.ctx, ast.Store) for x in ast.walk(tg)) and not isinstance(tg, ast.Subscript):
                        return None
            elif isinstance(n, ast.AnnAssign) and isinstance(n.target, ast.Name) and n.target.id == name and n.value is not None:
                vals.append(n.value)
            elif isinstance(n, (ast.AugAssign, ast.For, ast.With, ast.NamedExpr, ast.Import, ast.ImportFrom, ast.Global, ast.Nonlocal)):
                for x in ast.walk(n.target if isinstance(n, (ast.AugAssign, ast.For, ast.NamedExpr)) else n):
                    if isinstance(x, ast.Name) and x.id == name and isinstance(x.ctx, ast.Store):
                        return None
                    if isinstance(x, ast.alias) and (x.asname or x.name) == name:
                        return None
                if isinstance(n, (ast.Global, ast.Nonlocal)) and name in n.names:
                    return None
        return vals

    def _target(self, t) -> set[Raise]:
        out = set()
        if isinstance(t, ast.Subscript):
            out |= self._expr(t.value)
            if not isinstance(t.slice, ast.Slice):
                out |= self._expr(t.slice)
                # an item store raises IndexError only on a sequence; containers held in instance fields are mappings here
                # (dict displays / dict()), so only stores into local / parameter sequences are counted
                if isinstance(t.value, ast.Name) and not self._only_mappings(t.value.id):
                    out.add(self._mk("IndexError", t, f"item store {norm(t)[:50]}"))
        elif isinstance(t, ast.Attribute):
            out |= self._expr(t.value)
            # attribute store on self goes through __setattr__ of the class
            if isinstance(t.value, ast.Name) and t.value.id == self._selfname and self._f.cls:
                sa = self.repo.funcs.get(f"{self._f.module}.{self._f.cls}.__setattr__")
                if sa is not None and self._f.name != "__setattr__":
                    out |= {Raise(r.cls, r.origin, r.func, r.line, (self._f.qualname,) + r.via, r.tag) for r in self.summ[sa.qualname]}
        elif isinstance(t, (ast.Tuple, ast.List)):
            for e in t.elts:
                out |= self._target(e)
        return out

    def _binop_raises(self, op, right, node) -> set[Raise]:
        out = set()
        if isinstance(op, (ast.RShift, ast.LShift)):
            if not (isinstance(right, ast.Constant) and isinstance(right.value, int) and right.value >= 0):
                out.add(self._mk("ValueError", node, f"shift by a possibly negative count: {norm(node)[:60]}"))
        left = getattr(node, "left", None)
        if isinstance(op, ast.Mod) and isinstance(left, ast.Constant) and isinstance(left.value, str):
            return out  # "template" % args is string formatting, not a division
        if isinstance(op, (ast.Div, ast.FloorDiv, ast.Mod)):
            if not (isinstance(right, ast.Constant) and isinstance(right.value, (int, float)) and right.value != 0):
                v = self.eng.const_of(self._f.module, right)
                if not (isinstance(v, (int, float)) and v != 0):
                    out.add(self._mk("ZeroDivisionError", node, f"division by a possibly zero value: {norm(node)[:60]}"))
        return out

    def _expr(self, e) -> set[Raise]:
        out = set()
        if e is None:
            return out
        for n in self._walk_expr(e):
            if isinstance(n, ast.Name) and isinstance(n.ctx, ast.Load) and id(n) in self._unbound(self._f):
                out.add(self._mk("UnboundLocalError", n, f"local `{n.id}` is read before any assignment on this path"))
            if isinstance(n, ast.Subscript) and isinstance(n.ctx, ast.Load) and not isinstance(n.slice, ast.Slice):
                if id(n) in self.discharged:
                    continue
                if isinstance(n.slice, ast.Name) and isinstance(self.eng.const_of(self._f.module, n.slice), slice):
                    continue  # x[NAME] with NAME a module-level slice object is a slicing: it cannot raise IndexError
                out.add(self._mk("IndexError", n, f"subscript {norm(n)[:50]}"))
                out.add(self._mk("KeyError", n, f"subscript {norm(n)[:50]}"))
            elif isinstance(n, ast.BinOp):
                out |= self._binop_raises(n.op, n.right, n)
            elif isinstance(n, ast.Attribute) and isinstance(n.ctx, ast.Load):
                par = self.repo.parent(n)
                is_callee = isinstance(par, ast.Call) and par.func is n
                if isinstance(n.value, ast.Name) and n.value.id == self._selfname and self._f.cls:
                    clsq = f"{self._f.module}.{self._f.cls}"
                    m = self.repo.funcs.get(f"{clsq}.{n.attr}")
                    if m is not None and m.is_property:
                        out |= {Raise(r.cls, r.origin, r.func, r.line, (self._f.qualname,) + r.via, r.tag) for r in self.summ[m.qualname]}
                    elif m is None and n.attr not in self.init_fields(clsq) and not is_callee:
                        out.add(self._mk("AttributeError", n, f"attribute {norm(n)} is not assigned in the constructor"))
            elif isinstance(n, ast.Call):
                out |= self._call(n)
        return out

    def _walk_expr(self, e):
        todo = [e]
        while todo:
            n = todo.pop()
            yield n
            if isinstance(n, (ast.Lambda, ast.FunctionDef)):
                continue
            todo.extend(ast.iter_child_nodes(n))

    def _names_methods(self, n: ast.Call) -> bool:
        """getattr(self, NAME) where every value NAME can take (a constant, or the strings of the module-level table it is drawn
        from - see Resolver._dispatch_names) ... is restricted to names that are methods of the class: cannot raise AttributeError.
        Only names that look like identifiers of methods are considered; a table holding other strings fails the test."""
        f = self._f
        if not (f.cls and isinstance(n.args[0], ast.Name) and n.args[0].id == self._selfname):
            return False
        par = self.repo.parent(n)
        if not (isinstance(par, ast.Call) and par.func is n):
            return False  # only the dispatch idiom getattr(self, name)(...)
        names = self.res._dispatch_names(f, n.args[1])
        if not names:
            return False
        arg = n.args[1]
        if isinstance(arg, ast.Name):
            # the variable must be the second component of the table's rows: every row (tuple) of the table names a method in one position
            meths = {m.name for m in self.repo.methods(f.module, f.cls)}
            return self._table_column_is_methods(f, arg.id, meths)
        return all(self.repo.funcs.get(f"{f.module}.{f.cls}.{x}") is not None for x in names)

    def _table_column_is_methods(self, f, var: str, meths: set) -> bool:
        for node in walk_no_nested(f.node):
            if isinstance(node, ast.For) and isinstance(node.target, (ast.Tuple, ast.List)):
                pos = [i for i, t in enumerate(node.target.elts) if isinstance(t, ast.Name) and t.id == var]
                if len(pos) == 1 and isinstance(node.iter, ast.Name):
                    v = self.eng.const_of(f.module, node.iter)
                    if isinstance(v, (tuple, list)) and v and all(isinstance(r, (tuple, list)) and len(r) == len(node.target.elts) and r[pos[0]] in meths for r in v):
                        return True
        return False

    def _number_typed(self, e, depth=0) -> bool:
        """The expression is a number whatever the data: len() / ord() / int.from_bytes() / .count() results, arithmetic on such values, or a
        local every binding of which (in the function being summarised) is one of these - int() / float() of it cannot raise."""
        if isinstance(e, ast.Constant):
            return isinstance(e.value, (int, float)) and not isinstance(e.value, bool)
        if isinstance(e, ast.BinOp):
            return self._number_typed(e.left, depth) and self._number_typed(e.right, depth)
        if isinstance(e, ast.UnaryOp) and isinstance(e.op, (ast.USub, ast.UAdd, ast.Invert)):
            return self._number_typed(e.operand, depth)
        if isinstance(e, ast.Call):
            fn = norm(e.func)
            if fn in ("len", "ord", "int.from_bytes", "abs") or fn.endswith((".count", ".bit_length")):
                return True
            if fn in ("int", "float") and len(e.args) == 1:
                return self._number_typed(e.args[0], depth)
            return False
        if isinstance(e, ast.Subscript) and isinstance(e.slice, ast.Constant) and isinstance(e.slice.value, int):
            # an element of a bytes value is an int: only when the base is evidently bytes (a slice or subscript chain is not followed)
            return False
        if isinstance(e, ast.Name) and depth < 3:
            f = getattr(self, "_f", None)
            if f is None or e.id in f.params:
                return False
            assigns = [n for n in walk_no_nested(f.node) if isinstance(n, ast.Assign) and len(n.targets) == 1 and isinstance(n.targets[0], ast.Name) and n.targets[0].id == e.id]
            stores = [n for n in walk_no_nested(f.node) if isinstance(n, ast.Name) and n.id == e.id and isinstance(n.ctx, (ast.Store, ast.Del))]
            if not assigns or len(stores) != len(assigns):
                return False
            if not any(isinstance(n, (ast.For, ast.While)) for n in walk_no_nested(f.node)):
                # straight-line function: only the bindings that stand before the use can reach it (`mid = <int>; ...; mid = f"{int(mid)}..."`);
                # a binding whose right-hand side contains the use is evaluated before it rebinds
                pos = (getattr(e, "lineno", 0), getattr(e, "col_offset", 0))
                assigns = [a for a in assigns if (a.lineno, a.col_offset) < pos and not any(x is e for x in ast.walk(a.value))] or assigns
            return all(isinstance(a.value, ast.BinOp) or self._number_typed(a.value, depth + 1) for a in assigns)
        return False

    def _call(self, n: ast.Call) -> set[Raise]:
        out = set()
        fname = norm(n.func)
        short = fname.split(".")[-1]
        if fname == "getattr" and len(n.args) == 2 and not self._names_methods(n):
            out.add(self._mk("AttributeError", n, f"{norm(n)[:60]} without default"))
        if fname in CALL_RAISES:
            # int()/float() of an int-typed arithmetic expression cannot raise
            arg0 = n.args[0] if n.args else None
            arith = isinstance(arg0, (ast.BinOp, ast.Constant)) and not (isinstance(arg0, ast.Constant) and isinstance(arg0.value, str))
            arith = arith or (arg0 is not None and self._number_typed(arg0))
            if not (fname in ("int", "float") and arith and len(n.args) == 1):
                for c in CALL_RAISES[fname]:
                    out.add(self._mk(c, n))
        if isinstance(n.func, ast.Attribute) and n.func.attr in METHOD_RAISES and not (n.func.attr == "pop" and len(n.args) == 2):
            for c in METHOD_RAISES[n.func.attr]:
                out.add(self._mk(c, n))
        s = self._sites.get(id(n))
        if s:
            for t in s.targets:
                if t in self.summ:
                    for r in self.summ[t]:
                        cls = r.cls
                        if cls == "External":
                            out.add(r)
                            continue
                        if cls.startswith("param:"):
                            # substitute the class of the argument when it is a handler-bound exception
                            cls = None
                            callee = self.repo.funcs[t]
                            params = callee.params[1:] if (callee.cls and not callee.is_static) else callee.params
                            pname = r.cls.split(":", 1)[1]
                            if pname in params and params.index(pname) < len(n.args):
                                a = n.args[params.index(pname)]
                                h = self._enclosing_handler(n)
                                if isinstance(a, ast.Name) and h is not None and h.name == a.id:
                                    names = ["Exception"] if h.type is None else [norm(x).split(".")[-1] for x in (h.type.elts if isinstance(h.type, ast.Tuple) else [h.type])]
                                    for nm in names:
                                        out.add(Raise(nm, r.origin, r.func, r.line, (self._f.qualname,) + r.via, r.tag))
                                    continue
                            out.add(Raise("Exception", r.origin + " (class unknown)", r.func, r.line, (self._f.qualname,) + r.via, r.tag))
                            continue
                        out.add(Raise(cls, r.origin, r.func, r.line, (self._f.qualname,) + r.via, r.tag))
                elif t == EXTERNAL_USER:
                    self.assumptions.add(f"exceptions raised by the user-supplied object in `{norm(n)[:50]}` ({self._f.qualname}) are the caller's")
                    # a user stream may raise anything; modelled as a class that only broad handlers catch and that is never reported
                    out.add(Raise("External", "call on a user-supplied object", "", 0))
        return out

    def _enclosing_handler(self, node):
        p = self.repo.parent(node)
        while p is not None:
            if isinstance(p, ast.ExceptHandler):
                return p
            if isinstance(p, (ast.FunctionDef, ast.AsyncFunctionDef)):
                return None
            p = self.repo.parent(p)
        return None


def _len_bound_literal(c, pol, want_upper: bool):
    """literal over len(X): returns (X, k).
    want_upper=False: literal implies len(X) >= k.   want_upper=True: literal implies len(X) <= k."""
    if c[0] != "cmp":
        return None
    op, a, b = c[1], c[2], c[3]
    if not pol:
        op = NEGATE.get(op, op)
    flip = {"<": ">", ">": "<", "<=": ">=", ">=": "<=", "==": "==", "!=": "!="}

    def lenarg(t):
        return t[3][0] if t[0] == "call" and t[2] == ("builtin", "len") and len(t[3]) == 1 else None

    if lenarg(a) is None and lenarg(b) is not None:
        a, b, op = b, a, flip.get(op, op)
    x = lenarg(a)
    if x is None or not (is_const(b) and isinstance(b[1], int)):
        return None
    k = b[1]
    if want_upper:
        if op == "<":
            return x, k - 1
        if op == "<=":
            return x, k
        if op == "==":
            return x, k
        return None
    if op == ">":
        return x, k + 1
    if op == ">=":
        return x, k
    if op == "==":
        return x, k
    if op == "!=" and k == 0:
        return x, 1
    return None


def _nonneg_upper(t):
    """u such that 0 <= t <= u for every integer value of the operands, or None: `x & c` and `x % c` with a constant c."""
    if is_const(t) and isinstance(t[1], int) and not isinstance(t[1], bool) and t[1] >= 0:
        return t[1]
    if t[0] == "bin" and t[1] == "&":
        cands = [u for u in (_nonneg_upper(t[2]) if is_const(t[2]) else None, _nonneg_upper(t[3]) if is_const(t[3]) else None) if u is not None]
        return min(cands) if cands else None
    if t[0] == "bin" and t[1] == "%" and is_const(t[3]) and isinstance(t[3][1], int) and not isinstance(t[3][1], bool) and t[3][1] > 0:
        return t[3][1] - 1
    return None
