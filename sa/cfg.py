"""
Statement-level control-flow graph for one function, with exception edges inside `try`,
dominators, post-dominators, control dependence, reaching definitions and path enumeration.

Only the statement kinds listed in SUPPORTED are modelled; anything else is recorded in
`cfg.unsupported` and rules that need paths through it must report *undecided*.
"""

from __future__ import annotations

import ast
from dataclasses import dataclass, field

from .front import norm

SUPPORTED = (
    ast.If, ast.While, ast.For, ast.Try, ast.Return, ast.Raise, ast.Continue, ast.Break, ast.Assign,
    ast.AugAssign, ast.AnnAssign, ast.Expr, ast.Pass, ast.Assert, ast.Delete, ast.Global, ast.Nonlocal,
    ast.Import, ast.ImportFrom,
)


@dataclass
class Node:
    id: int
    kind: str  # entry | exit | raise | stmt | test | iter | handler
    ast: ast.AST | None = None
    succ: list = field(default_factory=list)  # (node id, label)
    pred: list = field(default_factory=list)
    in_try: tuple = ()  # ids of enclosing Try statements (innermost last)
    in_handler: tuple = ()  # enclosing except handlers (ast nodes)
    loops: tuple = ()  # enclosing loop statements (ast ids)

    @property
    def line(self):
        return getattr(self.ast, "lineno", 0)

    def text(self):
        if self.kind in ("entry", "exit", "raise", "end"):
            return f"<{self.kind}>"
        if self.kind == "test":
            return f"{type(self.ast).__name__.lower()} {norm(self.ast.test)}"
        if self.kind == "iter":
            return f"for {norm(self.ast.target)} in {norm(self.ast.iter)}"
        if self.kind == "handler":
            return f"except {norm(self.ast.type) if self.ast.type else ''}"
        return norm(self.ast)


class CFG:
    def __init__(self, func: ast.FunctionDef):
        self.func = func
        self.nodes: list[Node] = []
        self.unsupported: list[ast.AST] = []
        self.entry = self._new("entry")
        self.exit = self._new("exit")  # normal return
        self.raise_exit = self._new("raise")  # exceptional exit
        self.stmt_node: dict[int, int] = {}  # id(ast stmt) -> node id (test/iter node for compound)
        self._try_stack: list = []
        self._handler_stack: list = []
        self._loop_stack: list = []  # (head id, after-list)
        ends = self._block(func.body, [(self.entry.id, "next")])
        for e, lab in ends:
            self._edge(e, self.exit.id, lab)
        self._try_stack, self._handler_stack, self._loop_stack = [], [], []
        self.end = self._new("end")  # virtual sink joining the normal and the exceptional exit
        self._edge(self.exit.id, self.end.id, "end")
        self._edge(self.raise_exit.id, self.end.id, "end")
        self._cache = {}
        self._reach = None

    # ------------------------------------------------------------------ building
    def _new(self, kind, node=None) -> Node:
        n = Node(len(self.nodes), kind, node)
        n.in_try = tuple(id(t) for t in self._try_stack) if hasattr(self, "_try_stack") else ()
        n.in_handler = tuple(self._handler_stack) if hasattr(self, "_handler_stack") else ()
        n.loops = tuple(id(l[2]) for l in self._loop_stack) if hasattr(self, "_loop_stack") else ()
        self.nodes.append(n)
        return n

    def _edge(self, a, b, label="next"):
        if (b, label) not in self.nodes[a].succ:
            self.nodes[a].succ.append((b, label))
            self.nodes[b].pred.append((a, label))

    def _connect(self, preds, nid):
        for p, lab in preds:
            self._edge(p, nid, lab)

    def _exc_targets(self):
        """Where an exception raised at the current position may go: handlers of the innermost
        try (all of them: class filtering is done by raises.py), else the raise exit."""
        return self._try_stack[-1]["handlers"] if self._try_stack else [self.raise_exit.id]

    def _add_exc(self, nid):
        if self._try_stack:
            for h in self._try_stack[-1]["handlers"]:
                self._edge(nid, h, "exc")
            if not self._try_stack[-1]["catch_all"]:
                self._edge(nid, self._outer_exc(len(self._try_stack) - 1), "exc")

    def _outer_exc(self, level):
        # exception not caught at try level `level`: goes to enclosing try's handlers or out
        if level > 0:
            return self._try_stack[level - 1]["handlers"][0] if self._try_stack[level - 1]["handlers"] else self.raise_exit.id
        return self.raise_exit.id

    def _block(self, stmts, preds):
        for st in stmts:
            preds = self._stmt(st, preds)
        return preds

    def _stmt(self, st, preds):
        if not isinstance(st, SUPPORTED):
            self.unsupported.append(st)
        if isinstance(st, ast.If):
            t = self._new("test", st)
            self.stmt_node[id(st)] = t.id
            self._connect(preds, t.id)
            self._add_exc(t.id)
            a = self._block(st.body, [(t.id, "true")])
            b = self._block(st.orelse, [(t.id, "false")]) if st.orelse else [(t.id, "false")]
            return a + b
        if isinstance(st, ast.While):
            t = self._new("test", st)
            self.stmt_node[id(st)] = t.id
            self._connect(preds, t.id)
            self._add_exc(t.id)
            after = []
            self._loop_stack.append((t.id, after, st))
            body_end = self._block(st.body, [(t.id, "true")])
            self._loop_stack.pop()
            for e, lab in body_end:
                self._edge(e, t.id, "loop" if lab == "next" else lab)
            const_true = isinstance(st.test, ast.Constant) and bool(st.test.value)
            out = [] if const_true else [(t.id, "false")]
            if st.orelse:
                out = self._block(st.orelse, out)
            return out + after
        if isinstance(st, ast.For):
            t = self._new("iter", st)
            self.stmt_node[id(st)] = t.id
            self._connect(preds, t.id)
            self._add_exc(t.id)
            after = []
            self._loop_stack.append((t.id, after, st))
            body_end = self._block(st.body, [(t.id, "true")])
            self._loop_stack.pop()
            for e, lab in body_end:
                self._edge(e, t.id, "loop" if lab == "next" else lab)
            out = [(t.id, "false")]
            if st.orelse:
                out = self._block(st.orelse, out)
            return out + after
        if isinstance(st, ast.Try):
            if st.finalbody:
                self.unsupported.append(st)
            hnodes = []
            catch_all = False
            for h in st.handlers:
                hn = self._new("handler", h)
                self.stmt_node[id(h)] = hn.id
                hnodes.append(hn)
                if h.type is None or norm(h.type) in ("Exception", "BaseException"):
                    catch_all = True
            self._try_stack.append({"stmt": st, "handlers": [h.id for h in hnodes], "catch_all": catch_all})
            body_end = self._block(st.body, preds)
            self._try_stack.pop()
            if st.orelse:
                body_end = self._block(st.orelse, body_end)
            ends = list(body_end)
            for hn in hnodes:
                self._handler_stack.append(hn.ast)
                # statements inside a handler are outside the try's protection
                ends += self._block(hn.ast.body, [(hn.id, "next")])
                self._handler_stack.pop()
            return ends
        # simple statements
        n = self._new("stmt", st)
        self.stmt_node[id(st)] = n.id
        self._connect(preds, n.id)
        if isinstance(st, ast.Return):
            self._add_exc(n.id)
            self._edge(n.id, self.exit.id, "return")
            return []
        if isinstance(st, ast.Raise):
            # an explicit raise is a definite transfer of control: its edges are "raise", not "exc"
            if self._try_stack:
                for h in self._try_stack[-1]["handlers"]:
                    self._edge(n.id, h, "raise")
                if not self._try_stack[-1]["catch_all"]:
                    self._edge(n.id, self._outer_exc(len(self._try_stack) - 1), "raise")
            else:
                self._edge(n.id, self.raise_exit.id, "raise")
            return []
        if isinstance(st, ast.Continue):
            if self._loop_stack:
                self._edge(n.id, self._loop_stack[-1][0], "continue")
            return []
        if isinstance(st, ast.Break):
            if self._loop_stack:
                self._loop_stack[-1][1].append((n.id, "break"))
            return []
        from .symeval import may_raise_stmt

        if may_raise_stmt(st):
            self._add_exc(n.id)
        return [(n.id, "next")]

    # ------------------------------------------------------------------ queries
    def node_of(self, stmt: ast.AST) -> Node | None:
        nid = self.stmt_node.get(id(stmt))
        return self.nodes[nid] if nid is not None else None

    def node_containing(self, expr: ast.AST, parents) -> Node | None:
        """CFG node whose statement (or test/iter expression) contains `expr`."""
        n = expr
        while n is not None:
            if id(n) in self.stmt_node:
                node = self.nodes[self.stmt_node[id(n)]]
                return node
            n = parents.get(id(n))
        return None

    def succs(self, nid, labels=None, exc=True):
        return [s for s, l in self.nodes[nid].succ if (exc or l != "exc") and (labels is None or l in labels)]

    def preds(self, nid, exc=True):
        return [p for p, l in self.nodes[nid].pred if exc or l != "exc"]

    def reachable_from(self, nid, exc=True) -> set[int]:
        seen, todo = set(), [nid]
        while todo:
            x = todo.pop()
            if x in seen:
                continue
            seen.add(x)
            todo.extend(self.succs(x, exc=exc))
        return seen

    # ------------------------------------------------------------------ dominance
    def dominators(self, exc=True) -> dict[int, set[int]]:
        key = ("dom", exc)
        if key in self._cache:
            return self._cache[key]
        reach = self.reachable_from(self.entry.id, exc)
        dom = {n: set(reach) for n in reach}
        dom[self.entry.id] = {self.entry.id}
        changed = True
        while changed:
            changed = False
            for n in sorted(reach):
                if n == self.entry.id:
                    continue
                ps = [p for p in self.preds(n, exc) if p in reach]
                new = set.intersection(*(dom[p] for p in ps)) if ps else set()
                new = new | {n}
                if new != dom[n]:
                    dom[n] = new
                    changed = True
        self._cache[key] = dom
        return dom

    def dominates(self, a: int, b: int, exc=True) -> bool:
        d = self.dominators(exc)
        return b in d and a in d[b]

    def postdominators(self, sink=None, exc=False) -> dict[int, set[int]]:
        """Post-dominators with respect to `sink` (default: normal exit), over normal edges
        (exception edges excluded by default: 'every normally completing path')."""
        sink = self.exit.id if sink is None else sink
        key = ("pdom", sink, exc)
        if key in self._cache:
            return self._cache[key]
        # nodes that can reach sink
        can = set()
        todo = [sink]
        while todo:
            x = todo.pop()
            if x in can:
                continue
            can.add(x)
            todo.extend(self.preds(x, exc))
        pd = {n: set(can) for n in can}
        pd[sink] = {sink}
        changed = True
        while changed:
            changed = False
            for n in sorted(can, reverse=True):
                if n == sink:
                    continue
                ss = [s for s in self.succs(n, exc=exc) if s in can]
                new = set.intersection(*(pd[s] for s in ss)) if ss else set()
                new = new | {n}
                if new != pd[n]:
                    pd[n] = new
                    changed = True
        self._cache[key] = pd
        return pd

    def control_deps(self, nid: int, transitive=True) -> set[int]:
        """Branch nodes (test/iter) and handler entries on which `nid` is control dependent
        (Ferrante-Ottenstein-Warren on normal edges, sink = virtual end joining both exits;
        a statement inside an except handler additionally depends on that handler's entry)."""
        pd = self.postdominators(sink=self.end.id)
        out: set[int] = set()
        work, seen = [nid], set()
        while work:
            x = work.pop()
            if x in seen:
                continue
            seen.add(x)
            direct = set()
            for n in self.nodes:
                if n.kind not in ("test", "iter"):
                    continue
                ss = self.succs(n.id, exc=False)
                if len(ss) < 2:
                    continue
                if any(x in pd.get(s, ()) for s in ss) and not (n.id != x and x in pd.get(n.id, ())):
                    direct.add(n.id)
            for h in self.nodes[x].in_handler:
                hid = self.stmt_node.get(id(h))
                if hid is not None:
                    direct.add(hid)
            direct.discard(nid)
            for d in direct:
                if d not in out:
                    out.add(d)
                    if transitive:
                        work.append(d)
        return out

    def guards(self, nid: int) -> list[tuple[ast.AST, bool]]:
        """Dominating branch conditions: (test expr, polarity) such that every path (normal edges)
        from entry to nid passes the given side of the test."""
        out = []
        dom = self.dominators(exc=True)
        for t in self.nodes:
            if t.kind != "test" or t.id == nid or t.id not in dom.get(nid, ()):
                continue
            for lab, pol in (("true", True), ("false", False)):
                side = [s for s, l in t.succ if l == lab]
                other = [s for s, l in t.succ if l in ("true", "false") and l != lab]
                if not side:
                    continue
                # nid reachable only through `side` edge: remove that edge and test reachability
                if not self._reach_avoiding_edge(nid, t.id, lab):
                    out.append((t.ast.test, pol))
        return out

    def _reach_avoiding_edge(self, target, tnode, label) -> bool:
        seen, todo = set(), [self.entry.id]
        while todo:
            x = todo.pop()
            if x == target:
                return True
            if x in seen:
                continue
            seen.add(x)
            for s, l in self.nodes[x].succ:
                if x == tnode and l == label:
                    continue
                todo.append(s)
        return False

    # ------------------------------------------------------------------ reaching definitions
    def defs_of_node(self, n: Node) -> list[tuple[str, ast.AST | None, tuple]]:
        """Variables defined at node: (name, value expr or None, projection path)."""
        out = []
        a = n.ast
        if n.kind == "stmt":
            if isinstance(a, ast.Assign):
                for t in a.targets:
                    out.extend(_targets(t, a.value, ()))
            elif isinstance(a, ast.AnnAssign) and a.value is not None:
                out.extend(_targets(a.target, a.value, ()))
            elif isinstance(a, ast.AugAssign):
                if isinstance(a.target, ast.Name):
                    out.append((a.target.id, a, ("aug",)))
            elif isinstance(a, (ast.Import, ast.ImportFrom)):
                for al in a.names:
                    out.append(((al.asname or al.name).split(".")[0], None, ()))
        elif n.kind == "iter":
            for name, _, proj in _targets(a.target, a.iter, ()):
                out.append((name, a.iter, ("iter",) + proj))
        elif n.kind == "handler":
            if a.name:
                out.append((a.name, a.type, ("exc",)))
        elif n.kind == "entry":
            args = self.func.args
            for p in args.posonlyargs + args.args + args.kwonlyargs:
                out.append((p.arg, None, ("param", p.arg)))
            if args.vararg:
                out.append((args.vararg.arg, None, ("param", args.vararg.arg)))
            if args.kwarg:
                out.append((args.kwarg.arg, None, ("param", args.kwarg.arg)))
        return out

    def reaching(self) -> dict[int, dict[str, set[int]]]:
        """IN sets: node id -> var -> set of defining node ids."""
        if getattr(self, "_reach", None) is not None:
            return self._reach
        gen = {}
        for n in self.nodes:
            gen[n.id] = {name for name, _, _ in self.defs_of_node(n)}
        IN = {n.id: {} for n in self.nodes}
        OUT = {n.id: {} for n in self.nodes}
        work = list(range(len(self.nodes)))
        while work:
            nid = work.pop(0)
            n = self.nodes[nid]
            newin: dict[str, set[int]] = {}
            for p, lab in n.pred:
                # along an exception edge the definition at p may or may not have happened
                src = OUT[p] if lab != "exc" else _merge(IN[p], OUT[p])
                for v, ds in src.items():
                    newin.setdefault(v, set()).update(ds)
            IN[nid] = newin
            newout = {v: set(ds) for v, ds in newin.items()}
            for v in gen[nid]:
                newout[v] = {nid}
            if newout != OUT[nid]:
                OUT[nid] = newout
                for s, _ in n.succ:
                    if s not in work:
                        work.append(s)
        self._reach = IN
        return IN

    def def_value(self, def_node: int, var: str):
        """(value expr, projection) of the definition of var at def_node."""
        for name, val, proj in self.defs_of_node(self.nodes[def_node]):
            if name == var:
                return val, proj
        return None, ()

    # ------------------------------------------------------------------ paths
    def paths(self, start=None, limit=2000, exc=True, max_visits=2):
        """Enumerate paths from start to an exit (exit/raise); each loop head visited <= max_visits."""
        start = self.entry.id if start is None else start
        out = []

        def rec(nid, path, visits):
            if len(out) >= limit:
                return
            path = path + [nid]
            if nid in (self.exit.id, self.raise_exit.id):
                out.append(path)
                return
            visits = dict(visits)
            visits[nid] = visits.get(nid, 0) + 1
            succ = [(s, l) for s, l in self.nodes[nid].succ if exc or l != "exc"]
            if not succ:
                out.append(path)
                return
            for s, l in succ:
                if visits.get(s, 0) >= max_visits:
                    continue
                rec(s, path, visits)

        rec(start, [], {})
        return out


def _merge(a, b):
    out = {v: set(ds) for v, ds in a.items()}
    for v, ds in b.items():
        out.setdefault(v, set()).update(ds)
    return out


def _targets(t, value, proj):
    if isinstance(t, ast.Name):
        return [(t.id, value, proj)]
    if isinstance(t, (ast.Tuple, ast.List)):
        out = []
        for i, e in enumerate(t.elts):
            out.extend(_targets(e, value, proj + (i,)))
        return out
    if isinstance(t, ast.Starred):
        return _targets(t.value, value, proj + ("*",))
    return []  # attribute / subscript stores are not local definitions
