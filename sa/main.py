"""CLI: check <Cnn> [--tier quick|thorough] | --self-check | --replay <file> | all"""

from __future__ import annotations

import argparse
import importlib
import json
import os
import sys
import traceback

from .front import AnalysisError
from .report import Ctx

PROPS = [f"C{n:02d}" for n in range(1, 20)]


def run_property(prop: str, tier: str, seed: int, root=None) -> int:
    from .engine import Engine

    ctx = Ctx(prop, tier, seed)
    try:
        mod = importlib.import_module(f"sa.rules.{prop}")
    except ModuleNotFoundError:
        print(f"ANALYSIS-ERROR property={prop} check not built")
        return 2
    try:
        eng = Engine(root)
        hits = eng.g0()
        for m, line, what in hits:
            ctx.error(f"G0 unmodelled dynamic feature: {eng.repo.relpath(m)}:{line} {what}")
        mod.run(eng, ctx)
        if tier == "thorough" and hasattr(mod, "thorough"):
            mod.thorough(eng, ctx)
        if tier == "thorough":
            from .crosscheck import frontend_crosscheck

            frontend_crosscheck(eng, ctx)
    except AnalysisError as err:
        ctx.error(str(err))
    except Exception as err:  # the analyser itself failed: never a verdict
        tb = traceback.format_exc().strip().splitlines()
        ctx.error(f"internal error {type(err).__name__}: {err} @ {tb[-3].strip() if len(tb) >= 3 else ''}")
        if os.environ.get("VERIF_DEBUG"):
            traceback.print_exc()
    meta = getattr(mod, "META", {})
    extra = {}
    code = ctx.finish(
        meta.get("explanation", ""),
        meta.get("trusted", []),
        f"/verif/check {prop} --tier {tier}",
        extra,
    )
    if tier == "thorough" and code == 0 and not os.environ.get("VERIF_NO_SELFTEST"):
        from .selftest import run_selftest_for

        code = run_selftest_for(prop, ctx)
    return code


def main(argv=None) -> int:
    ap = argparse.ArgumentParser(prog="check")
    ap.add_argument("prop", nargs="?")
    ap.add_argument("--tier", default=os.environ.get("VERIF_TIER", "quick"), choices=["quick", "thorough"])
    ap.add_argument("--self-check", action="store_true")
    ap.add_argument("--replay")
    ap.add_argument("--repo")
    a = ap.parse_args(argv)
    seed = int(os.environ.get("VERIF_SEED", "0") or 0)
    if a.self_check:
        from .selfcheck import self_check

        return self_check()
    if a.replay:
        try:
            rec = json.load(open(a.replay))
        except (OSError, ValueError) as err:
            print(f"ANALYSIS-ERROR cannot read replay file: {err}")
            return 2
        print(f"replaying {rec.get('key')} (recorded at {rec.get('file')}:{rec.get('line')})")
        os.environ["VERIF_EVIDENCE_DIR"] = os.environ.get("VERIF_EVIDENCE_DIR", "/tmp/verif-replay-evidence")
        return run_property(rec["property"], "quick", seed, a.repo)
    if not a.prop:
        ap.print_usage()
        return 2
    if a.prop == "all":
        worst = 0
        for p in PROPS:
            worst = max(worst, run_property(p, a.tier, seed, a.repo))
        return worst
    if a.prop == "selftest":
        from .selftest import main as st_main

        return st_main()
    if a.prop not in PROPS:
        print(f"unknown property {a.prop}")
        return 2
    return run_property(a.prop, a.tier, seed, a.repo)


if __name__ == "__main__":
    sys.exit(main())
