"""CLI: check <Cnn> [--tier quick|thorough] | --self-check | --replay <file> | all"""

from __future__ import annotations

import argparse
import importlib
import json
import os
import sys
import traceback

from .front import AnalysisError
from .report import Ctx

PROPS = [f"C{n:02d}" for n in range(1, 20)]



class _BudgetExceeded(AnalysisError):
    pass


class analysis_budget:
    """Wall-clock guard around one analysis: a source on which the analyser does not finish is reported as an analysis error (never as a
    verdict, never as a hang)."""

    def __init__(self, seconds: int, what: str):
        self.seconds, self.what = seconds, what

    def __enter__(self):
        import signal

        self._sig = signal
        self._old = None
        if self.seconds > 0 and hasattr(signal, "SIGALRM"):
            try:
                def onalarm(signum, frame):
                    signal.alarm(5)  # raised again should a handler on the way out swallow it
                    raise _BudgetExceeded(f"analysis of {self.what} did not finish within {self.seconds}s")

                self._old = signal.signal(signal.SIGALRM, onalarm)
                signal.alarm(self.seconds)
            except ValueError:  # not the main thread
                self._old = None
        return self

    def __exit__(self, *exc):
        if self._old is not None:
            self._sig.alarm(0)
            self._sig.signal(self._sig.SIGALRM, self._old)
        return False


def run_property(prop: str, tier: str, seed: int, root=None) -> int:
    from .engine import Engine

    ctx = Ctx(prop, tier, seed)
    try:
        mod = importlib.import_module(f"sa.rules.{prop}")
    except ModuleNotFoundError:
        print(f"ANALYSIS-ERROR property={prop} check not built")
        return 2
    try:
        budget = int(os.environ.get("VERIF_ANALYSIS_BUDGET", "300"))
        with analysis_budget(budget, prop):
            eng = Engine(root)
            hits = eng.g0()
            for m, line, what in hits:
                ctx.error(f"G0 unmodelled dynamic feature: {eng.repo.relpath(m)}:{line} {what}")
            mod.run(eng, ctx)
        if tier == "thorough" and hasattr(mod, "thorough"):
            mod.thorough(eng, ctx)
        if tier == "thorough":
            from .crosscheck import frontend_crosscheck

            frontend_crosscheck(eng, ctx)
    except AnalysisError as err:
        ctx.error(str(err))
    except Exception as err:  # the analyser itself failed: never a verdict
        tb = traceback.format_exc().strip().splitlines()
        ctx.error(f"internal error {type(err).__name__}: {err} @ {tb[-3].strip() if len(tb) >= 3 else ''}")
        if os.environ.get("VERIF_DEBUG"):
            traceback.print_exc()
    meta = getattr(mod, "META", {})
    extra = {}
    code = ctx.finish(
        meta.get("explanation", ""),
        meta.get("trusted", []),
        f"/verif/check {prop} --tier {tier}",
        extra,
    )
    if tier == "thorough" and code == 0 and not os.environ.get("VERIF_NO_SELFTEST"):
        from .selftest import run_selftest_for

        code = run_selftest_for(prop, ctx)
    return code


def replay(path: str, seed: int, root=None) -> int:
    """Re-evaluate the rule of a recorded violation against the current tree: exit 1 (with the diagnostic) if the same
    obligation (rule, subject, construct) is still violated, exit 0 if it no longer is."""
    from .engine import Engine

    try:
        rec = json.load(open(path))
        prop, key = rec["property"], rec["key"]
    except (OSError, ValueError, KeyError) as err:
        print(f"ANALYSIS-ERROR cannot read replay file: {err}")
        return 2
    ctx = Ctx(prop, "quick", seed)
    try:
        importlib.import_module(f"sa.rules.{prop}").run(Engine(root), ctx)
    except Exception as err:
        print(f"ANALYSIS-ERROR property={prop} replay failed: {type(err).__name__}: {err}")
        return 2
    hits = [o for o in ctx.obs if o.status == "violated" and o.key == key]
    same_rule = [o for o in ctx.obs if o.status == "violated" and o.rule == rec.get("rule")]
    if hits:
        o = hits[0]
        print(f"VIOLATION property={prop} replay={path}")
        print(f"  still violated: {o.rule} {o.file}:{o.line} in {o.subject}: `{o.construct}` expected: {o.expected}; found: {o.found}")
        return 1
    print(f"replay {key}: no longer violated on the current tree ({len(same_rule)} other violation(s) of rule {rec.get('rule')})")
    return 0


def main(argv=None) -> int:
    ap = argparse.ArgumentParser(prog="check")
    ap.add_argument("prop", nargs="?")
    ap.add_argument("--tier", default=os.environ.get("VERIF_TIER", "quick"), choices=["quick", "thorough"])
    ap.add_argument("--self-check", action="store_true")
    ap.add_argument("--replay")
    ap.add_argument("--repo")
    a = ap.parse_args(argv)
    seed = int(os.environ.get("VERIF_SEED", "0") or 0)
    if a.self_check:
        from .selfcheck import self_check

        return self_check()
    if a.replay:
        return replay(a.replay, seed, a.repo)
    if not a.prop:
        ap.print_usage()
        return 2
    if a.prop == "all":
        worst = 0
        for p in PROPS:
            worst = max(worst, run_property(p, a.tier, seed, a.repo))
        return worst
    if a.prop == "selftest":
        from .selftest import main as st_main

        return st_main()
    if a.prop not in PROPS:
        print(f"unknown property {a.prop}")
        return 2
    return run_property(a.prop, a.tier, seed, a.repo)


if __name__ == "__main__":
    sys.exit(main())
