"""
Abstract domains over terms (exact or TOP):

  BV        non-negative integers as vectors of bits, each bit an affine form over GF(2) of
            named source bits (or unknown);
  cube      a conjunction of (source bit = constant) facts extracted from a boolean term;
  to_poly   integer/rational arithmetic as canonical multivariate polynomials (tables.Poly);
  to_cat    bytes values as ordered concatenations of (source, lo, hi) segments.

A term that a domain cannot represent maps to None (TOP); rules must then report *undecided*
or look for a definite counter-structure some other way.
"""

from __future__ import annotations

from fractions import Fraction

from .symeval import is_const, show
from .tables import Poly


# ============================================================================ bit vectors
class Syms:
    """Symbol table for source bits.  Index 0 is the constant ONE."""

    def __init__(self):
        self.names = ["1"]
        self.index = {"1": 0}

    def bit(self, name: str) -> int:
        if name not in self.index:
            self.index[name] = len(self.names)
            self.names.append(name)
        return 1 << self.index[name]

    def render(self, form) -> str:
        if form is None:
            return "?"
        if form == 0:
            return "0"
        return "^".join(self.names[i] for i in range(form.bit_length()) if form >> i & 1)


class BV:
    """bits[i] = affine form (int bitmask over Syms) of bit i, LSB first; None = unknown bit.
    Bits beyond len(bits) are zero.  `neg_ones`: value is a negative constant mask (all bits
    above len(bits) are one) - only produced by constants like ~0x03 and only usable as a mask."""

    __slots__ = ("bits", "neg_ones")

    def __init__(self, bits, neg_ones=False):
        bits = list(bits)
        if not neg_ones:
            while bits and bits[-1] == 0:
                bits.pop()
        self.bits = bits
        self.neg_ones = neg_ones

    @staticmethod
    def const(n: int):
        if n >= 0:
            return BV([(n >> i) & 1 for i in range(n.bit_length())])
        # negative: two's complement, infinite ones above
        w = (~n).bit_length() + 1
        return BV([(n >> i) & 1 for i in range(w)], neg_ones=True)

    @staticmethod
    def sym(syms: Syms, name: str, width: int):
        return BV([syms.bit(f"{name}.b{i}") for i in range(width)])

    def width(self):
        return len(self.bits)

    def bit(self, i):
        if i < len(self.bits):
            return self.bits[i]
        return 1 if self.neg_ones else 0

    def is_const(self):
        return all(b in (0, 1) for b in self.bits)

    def const_value(self):
        v = sum((b & 1) << i for i, b in enumerate(self.bits))
        if self.neg_ones:
            v -= 1 << len(self.bits)
        return v

    def known(self):
        return all(b is not None for b in self.bits)

    def shl(self, k: int):
        if self.neg_ones:
            return None
        return BV([0] * k + self.bits)

    def shr(self, k: int):
        return BV(self.bits[k:], self.neg_ones)

    def xor(self, o):
        if self.neg_ones or o.neg_ones:
            return None
        n = max(len(self.bits), len(o.bits))
        out = []
        for i in range(n):
            a, b = self.bit(i), o.bit(i)
            out.append(None if a is None or b is None else a ^ b)
        return BV(out)

    def and_(self, o):
        if self.neg_ones and o.neg_ones:
            return None
        n = max(len(self.bits), len(o.bits)) if (self.neg_ones or o.neg_ones) else min(len(self.bits), len(o.bits))
        if self.neg_ones:
            n = len(o.bits)
        elif o.neg_ones:
            n = len(self.bits)
        out = []
        for i in range(n):
            a, b = self.bit(i), o.bit(i)
            if a == 0 or b == 0:
                out.append(0)
            elif a == 1:
                out.append(b)
            elif b == 1:
                out.append(a)
            elif a is not None and a == b:
                out.append(a)
            else:
                out.append(None)
        return BV(out)

    def disjoint(self, o):
        n = max(len(self.bits), len(o.bits))
        return all(self.bit(i) == 0 or o.bit(i) == 0 for i in range(n))

    def or_(self, o):
        if self.neg_ones or o.neg_ones:
            return None
        n = max(len(self.bits), len(o.bits))
        out = []
        for i in range(n):
            a, b = self.bit(i), o.bit(i)
            if a == 0:
                out.append(b)
            elif b == 0:
                out.append(a)
            elif a == 1 or b == 1:
                out.append(1)
            elif a is not None and a == b:
                out.append(a)
            else:
                out.append(None)
        return BV(out)

    def add(self, o):
        if self.neg_ones or o.neg_ones:
            return None
        if self.disjoint(o):
            return self.or_(o)
        if self.is_const() and o.is_const():
            return BV.const(self.const_value() + o.const_value())
        # carries possible from the lowest overlapping bit upward: unknown there
        n = max(len(self.bits), len(o.bits)) + 1
        out, carry_possible = [], False
        for i in range(n):
            a, b = self.bit(i), o.bit(i)
            if not carry_possible and (a == 0 or b == 0):
                out.append(b if a == 0 else a)
            else:
                carry_possible = True
                out.append(None)
        return BV(out)

    def render(self, syms: Syms):
        return "[" + " ".join(syms.render(self.bit(i)) for i in reversed(range(len(self.bits)))) + "]" + ("…1" if self.neg_ones else "")


class BVContext:
    """Term -> BV conversion.  `byte_sources` decides which terms denote bytes objects whose
    elements are 8-bit sources; `sym_width` gives widths of opaque integer symbols."""

    def __init__(self, syms: Syms | None = None):
        self.syms = syms or Syms()
        self.int_syms: dict = {}  # term -> (name, width)
        self.cat = None  # optional CatContext for resolving indexes into concatenations
        self.facts: dict[int, int] = {}  # symbol bit (single-bit mask) -> constant 0/1

    def declare(self, term, name, width):
        self.int_syms[term] = (name, width)

    def byte_of(self, base, i: int) -> BV | None:
        """8 source bits for base[i] (base a bytes-valued term)."""
        if self.cat is not None:
            r = self.cat.resolve_index(base, i)
            if r is None:
                return None
            if r[0] == "const":
                return BV.const(r[1])
            if r[0] == "int8":
                v = self.to_bv(r[1])  # an element of bytes((..)) is the integer itself (0..255)
                return None if v is None or v.neg_ones else BV([v.bit(i) for i in range(8)]) if v.width() <= 8 else None
            src, j = r[1], r[2]
        else:
            src, j = base, i
        name = f"{show(src)}[{j}]"
        return self.apply_facts(BV.sym(self.syms, name, 8))

    @staticmethod
    def affine_lookup(table, ix: BV | None) -> BV | None:
        """TABLE[ix] for a constant table of 2^n non-negative ints and an n-bit index whose bits are affine forms: exact when the
        table is an affine map over GF(2) of its index (T[i] = T[0] ^ XOR_k bit_k(i)*(T[2^k]^T[0]), checked on all entries - true of
        every CRC lookup table); else TOP."""
        n = len(table).bit_length() - 1
        if ix is None or ix.neg_ones or not ix.known() or len(table) != 1 << n or n == 0 or ix.width() > n:
            return None
        if not all(isinstance(v, int) and not isinstance(v, bool) and v >= 0 for v in table):
            return None
        t0 = table[0]
        basis = [table[1 << k] ^ t0 for k in range(n)]
        for i, v in enumerate(table):
            acc = t0
            for k in range(n):
                if i >> k & 1:
                    acc ^= basis[k]
            if acc != v:
                return None
        w = max(v.bit_length() for v in table)
        out = []
        for j in range(w):
            f = t0 >> j & 1
            for k in range(n):
                if basis[k] >> j & 1:
                    f ^= ix.bit(k)
            out.append(f)
        return BV(out)

    @staticmethod
    def nonaffine_witness(table, ix: BV | None):
        """(i, T[i], affine prediction) for the first entry at which a 2^n table deviates from the affine map fixed by T[0] and
        T[2^k], provided the index forms are linearly independent (every entry is reachable); else None."""
        n = len(table).bit_length() - 1
        if ix is None or ix.neg_ones or not ix.known() or len(table) != 1 << n or n == 0 or ix.width() > n:
            return None
        if not all(isinstance(v, int) and not isinstance(v, bool) and v >= 0 for v in table):
            return None
        rows = [ix.bit(k) & ~1 for k in range(n)]  # linear parts
        piv = {}
        for r in rows:
            while r:
                h = r.bit_length() - 1
                if h in piv:
                    r ^= piv[h]
                else:
                    piv[h] = r
                    break
        rank = len(piv)
        if rank != n:
            return None
        t0 = table[0]
        basis = [table[1 << k] ^ t0 for k in range(n)]
        for i, v in enumerate(table):
            acc = t0
            for k in range(n):
                if i >> k & 1:
                    acc ^= basis[k]
            if acc != v:
                return i, v, acc
        return None

    def apply_facts(self, bv: BV) -> BV:
        if not self.facts:
            return bv
        out = []
        for b in bv.bits:
            if b is not None and b in self.facts:
                out.append(self.facts[b])
            else:
                out.append(b)
        return BV(out, bv.neg_ones)

    def to_bv(self, t) -> BV | None:
        if is_const(t):
            v = t[1]
            if isinstance(v, bool):
                v = int(v)
            if isinstance(v, int):
                return BV.const(v)
            return None
        if t in self.int_syms:
            name, w = self.int_syms[t]
            return self.apply_facts(BV.sym(self.syms, name, w))
        k = t[0]
        if k == "idx":
            base, idx = t[1], t[2]
            if is_const(idx) and isinstance(idx[1], int):
                return self.byte_of(base, idx[1])
            if is_const(base) and isinstance(base[1], (tuple, list)):
                return self.affine_lookup(base[1], self.to_bv(idx))
            if base[0] == "gval" and isinstance(getattr(base[1], "v", None), (tuple, list)):
                return self.affine_lookup(base[1].v, self.to_bv(idx))  # a table folded from the function's constant prologue
            return None
        if k == "bin":
            op, a, b = t[1], self.to_bv(t[2]), self.to_bv(t[3])
            if a is None or b is None:
                return None
            if op == "<<":
                return a.shl(b.const_value()) if b.is_const() and not b.neg_ones and b.const_value() < 4096 else None
            if op == ">>":
                return a.shr(b.const_value()) if b.is_const() and not b.neg_ones else None
            if op == "&":
                return a.and_(b)
            if op == "|":
                return a.or_(b)
            if op == "^":
                return a.xor(b)
            if op == "+":
                return a.add(b)
            if op == "*" and b.is_const() and not b.neg_ones:
                c = b.const_value()
                if c > 0 and c & (c - 1) == 0:
                    return a.shl(c.bit_length() - 1)
            if op == "*" and a.is_const() and not a.neg_ones:
                c = a.const_value()
                if c > 0 and c & (c - 1) == 0:
                    return b.shl(c.bit_length() - 1)
            if op == "//" and b.is_const() and not b.neg_ones:
                c = b.const_value()
                if c > 0 and c & (c - 1) == 0:
                    return a.shr(c.bit_length() - 1)
            if op == "%" and b.is_const() and not b.neg_ones:
                c = b.const_value()
                if c > 0 and c & (c - 1) == 0:
                    return a.and_(BV.const(c - 1))
            return None
        if k == "proj" and t[2] in (0, 1) and t[1][0] == "call" and t[1][2] == ("builtin", "divmod") and len(t[1][3]) == 2 and not t[1][4]:
            # divmod(a, b)[0] = a // b, divmod(a, b)[1] = a % b
            return self.to_bv(("bin", "//" if t[2] == 0 else "%", t[1][3][0], t[1][3][1]))
        if k == "un" and t[1] == "~":
            a = self.to_bv(t[2])
            if a is not None and a.is_const():
                return BV.const(~a.const_value())
            return None
        if k == "ite":
            c = self.bool_form(t[1])
            a, b = self.to_bv(t[2]), self.to_bv(t[3])
            if c is None or a is None or b is None or a.neg_ones or b.neg_ones:
                return None
            if c == 1:
                return a
            if c == 0:
                return b
            n = max(a.width(), b.width())
            out = []
            for i in range(n):
                x, y = a.bit(i), b.bit(i)
                if x is None or y is None:
                    out.append(None)
                elif x == y:
                    out.append(x)
                elif (x ^ y) == 1:  # differ by a constant: y ^ c
                    out.append(y ^ c)
                else:
                    out.append(None)
            return BV(out)
        if k == "call":
            f, args, kwargs = t[2], t[3], dict(t[4])
            if f == ("attr", ("builtin", "int"), "from_bytes") and len(args) >= 1:
                order = args[1] if len(args) > 1 else kwargs.get("byteorder", ("const", "big"))
                signed = kwargs.get("signed", ("const", False))
                if not (is_const(order) and order[1] in ("big", "little") and is_const(signed) and not signed[1]):
                    return None
                n = self.cat.length_const(args[0]) if self.cat is not None else None
                if n is None:
                    return None
                bytes_ = [self.byte_of(args[0], i) for i in range(n)]
                if any(b is None for b in bytes_):
                    return None
                if order[1] == "big":
                    bytes_.reverse()
                bits = []
                for b in bytes_:
                    bits.extend(b.bit(i) for i in range(8))
                return BV(bits)
            if f == ("builtin", "int") and len(args) == 1:
                return self.to_bv(args[0])
            if f == ("builtin", "ord") and len(args) == 1:
                return self.byte_of(args[0], 0)
        return None

    # ------------------------------------------------------------------ boolean structure
    def bool_form(self, c):
        """Truth value of a term as a single affine form (0/1/symbol form) or None."""
        if is_const(c):
            try:
                return 1 if c[1] else 0
            except Exception:
                return None
        if c[0] == "cmp" and c[1] in ("!=", "==") and is_const(c[3]) and c[3][1] == 0:
            f = self.bool_form(c[2])
            if f is None:
                return None
            return f if c[1] == "!=" else f ^ 1
        if c[0] == "cmp" and c[1] in ("!=", "==") and is_const(c[3]) and c[3][1] == 1 and not isinstance(c[3][1], bool):
            # a value that has one bit only (x % 2, x & 1, (x >> k) & 1) compared with 1
            bv1 = self.to_bv(c[2])
            if bv1 is None or bv1.neg_ones or any(b != 0 for b in bv1.bits[1:]):
                return None
            f = bv1.bit(0) if bv1.bits else 0
            if f is None:
                return None
            return f if c[1] == "==" else f ^ 1
        if c[0] == "not":
            f = self.bool_form(c[1])
            return None if f is None else f ^ 1
        if c[0] == "truth":
            return self.bool_form(c[1])
        bv = self.to_bv(c)
        if bv is None or bv.neg_ones:
            return None
        nz = [b for b in bv.bits if b != 0]
        if not nz:
            return 0
        if len(nz) == 1:
            return nz[0]
        return None

    def cube(self, c, polarity=True):
        """Conjunction of single-source-bit facts implied by (c == polarity), as {bitmask: 0/1},
        plus a flag saying whether the extraction is *exact* (the condition is equivalent to the
        cube).  Returns (facts, exact) or (None, False) if nothing can be said."""
        if c[0] == "and" and polarity:
            facts, exact = {}, True
            for x in c[1]:
                f, e = self.cube(x, True)
                if f is None:
                    exact = False
                    continue
                for k, v in f.items():
                    if facts.get(k, v) != v:
                        return {"contradiction": 1}, False
                    facts[k] = v
                exact = exact and e
            return facts, exact
        if c[0] == "or" and not polarity:
            return self.cube(("and", tuple(_neg(x) for x in c[1])), True)
        if c[0] == "not":
            return self.cube(c[1], not polarity)
        if c[0] == "cmp":
            op, a, b = c[1], c[2], c[3]
            if not polarity:
                from .symeval import NEGATE

                op = NEGATE[op]
            # bytes equality against a constant
            if op == "==" and is_const(b) and isinstance(b[1], (bytes, bytearray)) and self.cat is not None:
                n = self.cat.length_const(a)
                if n is None:
                    return None, False
                if n != len(b[1]):
                    return {"contradiction": 1}, False
                facts = {}
                for i, byte in enumerate(b[1]):
                    bv = self.byte_of(a, i)
                    if bv is None:
                        return None, False
                    for j in range(8):
                        form = bv.bit(j)
                        want = byte >> j & 1
                        if form in (0, 1):
                            if form != want:
                                return {"contradiction": 1}, False
                        elif form is None or form & (form - 1) and not _single(form):
                            return None, False
                        else:
                            facts[form] = want
                return facts, True
            if op == "==" and is_const(a) and not is_const(b):
                return self.cube(("cmp", "==", b, a), True)
            bva = self.to_bv(a)
            if bva is None or bva.neg_ones or not is_const(b) or not isinstance(b[1], int) or isinstance(b[1], bool):
                return None, False
            k = b[1]
            if op == "==":
                facts = {}
                if k < 0 or k.bit_length() > max(bva.width(), 1) and k != 0:
                    # value cannot be reached if high bits are structurally zero
                    return {"contradiction": 1}, False
                for i in range(bva.width()):
                    form, want = bva.bit(i), k >> i & 1
                    if form in (0, 1):
                        if form != want:
                            return {"contradiction": 1}, False
                    elif form is None or not _single(form):
                        return None, False
                    else:
                        facts[form] = want
                return facts, True
            # upper bounds by a power of two: x < 2^m, x <= 2^m - 1
            bound = None
            if op == "<" and k > 0 and k & (k - 1) == 0:
                bound = k.bit_length() - 1
            elif op == "<=" and k >= 0 and (k + 1) & k == 0:
                bound = (k + 1).bit_length() - 1
            if bound is not None:
                facts = {}
                for i in range(bound, bva.width()):
                    form = bva.bit(i)
                    if form == 0:
                        continue
                    if form is None or form == 1 or not _single(form):
                        return None, False
                    facts[form] = 0
                return facts, True
            return None, False
        f = self.bool_form(c)
        if f is not None and f not in (0, 1) and _single(f):
            return {f: 1 if polarity else 0}, True
        return None, False

    def render_cube(self, facts) -> str:
        return " ∧ ".join(f"{self.syms.render(k)}={v}" for k, v in sorted(facts.items(), key=lambda kv: self.syms.render(kv[0])))


def _single(form: int) -> bool:
    """form is exactly one source bit (no constant term)."""
    return form > 1 and form & (form - 1) == 0


def _neg(c):
    if c[0] == "not":
        return c[1]
    if c[0] == "cmp":
        from .symeval import NEGATE

        return ("cmp", NEGATE[c[1]], c[2], c[3])
    return ("not", c)


# ============================================================================ polynomials
def to_poly(t, symname=None, opaque=None):
    """Term -> Poly (over Q).  Non-arithmetic sub-terms become symbols named by `symname(term)`
    (default: rendered text); a sub-term that `symname` maps to a name different from its
    rendered text is an *atom* and is not decomposed.  Returns None if an operator cannot be represented."""
    symname = symname or show
    if symname is not show and not is_const(t):
        nm = symname(t)
        if nm != show(t):
            return Poly.sym(nm)
    if is_const(t):
        v = t[1]
        if isinstance(v, bool):
            v = int(v)
        if isinstance(v, int):
            return Poly.const(v)
        if isinstance(v, float) and v == int(v):
            return Poly.const(int(v))
        if isinstance(v, float):
            return Poly.const(Fraction(v))
        return None
    k = t[0]
    if k == "bin":
        op = t[1]
        a, b = to_poly(t[2], symname, opaque), to_poly(t[3], symname, opaque)
        if a is None or b is None:
            return Poly.sym(symname(t)) if op not in ("+", "-", "*") else None
        if op == "+":
            return a + b
        if op == "-":
            return a - b
        if op == "*":
            return a * b
        if op == "/" and b.is_const() and b.const_value() != 0:
            return a.div_const(b.const_value())
        if op == "<<" and b.is_const() and b.const_value().denominator == 1 and 0 <= b.const_value() < 4096:
            return a * (1 << int(b.const_value()))
        if op == "**" and b.is_const() and b.const_value().denominator == 1 and 0 <= b.const_value() <= 8:
            r = Poly.const(1)
            for _ in range(int(b.const_value())):
                r = r * a
            return r
        if op == "//" and b.is_const() and b.const_value().denominator == 1 and b.const_value() > 0 and _divisible(a, int(b.const_value())):
            return a.div_const(b.const_value())  # exact: the numerator is a multiple of the divisor for all integer arguments
        if op in ("&", "|", "^", ">>", "%", "//") or op in ("<<", "**", "/"):
            return Poly.sym(symname(t))  # not polynomial: an opaque atom
        return None
    if k == "un" and t[1] == "neg":
        a = to_poly(t[2], symname, opaque)
        return None if a is None else -a
    if k == "un" and t[1] == "pos":
        return to_poly(t[2], symname, opaque)
    if k == "call" and t[2] == ("builtin", "int") and len(t[3]) == 1:
        return to_poly(t[3][0], symname, opaque)  # int() of an integral quantity (caller checks integrality)
    if opaque is not None and not opaque(t):
        return None
    return Poly.sym(symname(t))


def _divisible(p: Poly, c: int) -> bool:
    """Is the integer-coefficient polynomial p a multiple of c for every integer assignment?  (p mod c is periodic in each
    variable with period c, so checking all residues decides it.)"""
    import itertools

    if any(v.denominator != 1 for v in p.t.values()):
        return False
    syms = sorted(p.symbols())
    if len(syms) > 4 or c > 16:
        return False
    for vals in itertools.product(range(c), repeat=len(syms)):
        env = dict(zip(syms, vals))
        total = 0
        for mono, coef in p.t.items():
            term = int(coef)
            for m in mono:
                term *= env[m]
            total += term
        if total % c:
            return False
    return True


# ============================================================================ byte concatenations
class CatContext:
    """Bytes-valued terms as concatenations of segments (source term, lo, hi) with constant or
    polynomial bounds.  `length_of(term)` gives the length of an atomic source as a Poly or int."""

    def __init__(self, length_of=None):
        self.length_of = length_of or (lambda t: None)

    def to_cat(self, t):
        """-> list of segments ('const', bytes) | ('src', term, lo, hi) with lo/hi int|None|Poly; or None."""
        if is_const(t) and isinstance(t[1], (bytes, bytearray)):
            return [("const", bytes(t[1]))]
        k = t[0]
        if k == "bin" and t[1] == "+":
            a, b = self.to_cat(t[2]), self.to_cat(t[3])
            if a is None or b is None:
                return None
            return _join(a + b)
        if k == "slice":
            base = self.to_cat(t[1])
            lo, hi, step = t[2], t[3], t[4]
            if base is None or step != ("const", None):
                return None
            return self._slice(base, lo, hi)
        if k == "call" and t[2] == ("builtin", "bytes") and len(t[3]) == 1:
            a = t[3][0]
            if a[0] in ("tuple", "list"):
                return [("int8", x) for x in a[1]]  # bytes((b0, b1, ...)): one byte per element
            if is_const(a) and isinstance(a[1], (tuple, list)) and all(isinstance(x, int) and 0 <= x < 256 for x in a[1]):
                return [("const", bytes(a[1]))]
            return self.to_cat(a)
        return [("src", t, 0, None)]

    def seg_len(self, seg):
        if seg[0] == "const":
            return len(seg[1])
        if seg[0] == "int8":
            return 1
        _, src, lo, hi = seg
        if hi is not None:
            if isinstance(hi, int) and isinstance(lo, int):
                return hi - lo
            return _p(hi) - _p(lo)
        n = self.length_of(src)
        if n is None:
            return None
        if isinstance(n, int) and isinstance(lo, int):
            return n - lo
        return _p(n) - _p(lo)

    def length(self, t):
        cat = self.to_cat(t)
        if cat is None:
            return None
        total = 0
        for s in cat:
            n = self.seg_len(s)
            if n is None:
                return None
            total = total + n if isinstance(total, int) and isinstance(n, int) else _p(total) + _p(n)
        return total

    def length_const(self, t):
        n = self.length(t)
        if isinstance(n, int):
            return n
        if isinstance(n, Poly) and n.is_const() and n.const_value().denominator == 1:
            return int(n.const_value())
        return None

    def _slice(self, cat, lo, hi):
        """Slice with constant non-negative lo and hi constant (>=0 or negative or None)."""
        if not (is_const(lo) and (lo[1] is None or isinstance(lo[1], int))):
            return self._slice_sym(cat, lo, hi)
        if not (is_const(hi) and (hi[1] is None or isinstance(hi[1], int))):
            return self._slice_sym(cat, lo, hi)
        lo_v = lo[1] or 0
        hi_v = hi[1]
        lens = [self.seg_len(s) for s in cat]
        total_known = all(isinstance(n, int) for n in lens)
        if lo_v < 0 or (hi_v is not None and hi_v < 0):
            if not total_known:
                # negative bounds relative to an unknown total: handle the common [a:-b] on a cat whose
                # trailing segments have constant length
                return self._slice_neg(cat, lens, lo_v, hi_v)
            total = sum(lens)
            if lo_v < 0:
                lo_v = max(0, total + lo_v)
            if hi_v is not None and hi_v < 0:
                hi_v = max(0, total + hi_v)
        out, pos = [], 0
        for s, n in zip(cat, lens):
            if hi_v is not None and pos >= hi_v:
                break
            if n is None or not isinstance(n, int):
                # unknown-length segment: only sliceable if the slice starts at/before it and is open-ended
                if pos >= lo_v and hi_v is None:
                    out.append(s)
                    pos = None
                    # all remaining segments are taken whole
                    idx = cat.index(s)
                    out.extend(cat[idx + 1 :])
                    return _join(out)
                if pos <= lo_v and hi_v is None and s[0] == "src" and s[3] is None:
                    out.append(("src", s[1], s[2] + (lo_v - pos), None))
                    idx = cat.index(s)
                    out.extend(cat[idx + 1 :])
                    return _join(out)
                return None
            a = max(lo_v - pos, 0)
            b = n if hi_v is None else min(hi_v - pos, n)
            if a < b:
                out.append(_sub(s, a, b, n))
            pos += n
        return _join(out)

    def _slice_neg(self, cat, lens, lo_v, hi_v):
        # strip from the front
        if lo_v < 0:
            # keep the last -lo_v bytes
            need, out = -lo_v, []
            if hi_v is not None:
                return None
            for s, n in zip(reversed(cat), reversed(lens)):
                if need <= 0:
                    break
                if not isinstance(n, int):
                    if s[0] == "src" and s[3] is None:
                        out.append(("tail", s[1], need))
                        need = 0
                        break
                    return None
                take = min(n, need)
                out.append(_sub(s, n - take, n, n))
                need -= take
            out.reverse()
            return _join(out)
        out = []
        # hi negative: drop the last -hi_v bytes
        drop = -hi_v
        rcat, rlens = list(cat), list(lens)
        while drop > 0 and rcat:
            s, n = rcat[-1], rlens[-1]
            if not isinstance(n, int):
                if s[0] == "src" and s[3] is None:
                    rcat[-1] = ("src", s[1], s[2], ("neg", drop))
                    rlens[-1] = None
                    drop = 0
                    break
                return None
            if n <= drop:
                rcat.pop()
                rlens.pop()
                drop -= n
            else:
                rcat[-1] = _sub(s, 0, n - drop, n)
                rlens[-1] = n - drop
                drop = 0
        # now strip lo_v from the front
        pos_drop = lo_v
        while pos_drop > 0 and rcat:
            s, n = rcat[0], rlens[0]
            if not isinstance(n, int):
                if s[0] == "src":
                    rcat[0] = ("src", s[1], (s[2] if isinstance(s[2], int) else 0) + pos_drop, s[3])
                    pos_drop = 0
                    break
                return None
            if n <= pos_drop:
                rcat.pop(0)
                rlens.pop(0)
                pos_drop -= n
            else:
                rcat[0] = _sub(s, pos_drop, n, n)
                rlens[0] = n - pos_drop
                pos_drop = 0
        return _join(rcat)

    def _slice_sym(self, cat, lo, hi):
        """Symbolic bounds: only on a single atomic source."""
        if len(cat) == 1 and cat[0][0] == "src" and cat[0][2] == 0 and cat[0][3] is None:
            plo = Poly.const(0) if lo == ("const", None) else to_poly(lo)
            phi = None if hi == ("const", None) else to_poly(hi)
            if plo is None or (hi != ("const", None) and phi is None):
                return None
            return [("src", cat[0][1], plo, phi)]
        return None

    def resolve_index(self, base, i: int):
        """base[i] -> ('const', byte) | ('src', source term, j) | None."""
        cat = self.to_cat(base)
        if cat is None:
            return None
        if i < 0:
            lens = [self.seg_len(s) for s in cat]
            if not all(isinstance(n, int) for n in lens):
                return None
            i += sum(lens)
            if i < 0:
                return None
        pos = 0
        for s in cat:
            n = self.seg_len(s)
            if not isinstance(n, int):
                if s[0] == "src" and isinstance(s[2], int) and s[3] is None and i >= pos:
                    # index into an unknown-length trailing source
                    return ("src", s[1], s[2] + (i - pos))
                return None
            if i < pos + n:
                if s[0] == "const":
                    return ("const", s[1][i - pos])
                if s[0] == "int8":
                    return ("int8", s[1])
                lo = s[2] if isinstance(s[2], int) else None
                if lo is None:
                    return None
                return ("src", s[1], lo + (i - pos))
            pos += n
        return None

    def render(self, cat) -> str:
        if cat is None:
            return "?"
        parts = []
        for s in cat:
            if s[0] == "const":
                parts.append(repr(s[1]))
            elif s[0] == "int8":
                parts.append(f"bytes(({show(s[1])},))")
            elif s[0] == "tail":
                parts.append(f"{show(s[1])}[-{s[2]}:]")
            else:
                lo, hi = s[2], s[3]
                if lo == 0 and hi is None:
                    parts.append(show(s[1]))
                else:
                    h = "" if hi is None else (f"-{hi[1]}" if isinstance(hi, tuple) else str(hi))
                    parts.append(f"{show(s[1])}[{lo if lo != 0 else ''}:{h}]")
        return " ‖ ".join(parts) if parts else "b''"


def _p(x):
    return x if isinstance(x, Poly) else Poly.const(x)


def _sub(seg, a, b, n):
    if seg[0] == "const":
        return ("const", seg[1][a:b])
    _, src, lo, hi = seg
    lo = lo if isinstance(lo, int) else 0
    if a == 0 and b == n:
        return seg
    return ("src", src, lo + a, lo + b)


def _join(segs):
    out = []
    for s in segs:
        if s[0] == "const" and not s[1]:
            continue
        if out and out[-1][0] == "const" and s[0] == "const":
            out[-1] = ("const", out[-1][1] + s[1])
        elif out and out[-1][0] == "src" and s[0] == "src" and out[-1][1] == s[1] and out[-1][3] is not None and out[-1][3] == s[2]:
            out[-1] = ("src", s[1], out[-1][2], s[3])
        else:
            out.append(s)
    return out
