"""
Comprehension algebra: what a function that builds lists / dicts with loops, counters, comprehensions, enumerate / zip / product ends up holding,
as a *normal form*  [ elt | v1 <- range, v2 <- range, ..., cond1, cond2, ... ]  (for a dict: the same, keyed base, base + 1, ... in that order).

The interpreter executes the function's statements abstractly (scalar expressions are evaluated to terms by the term evaluator, `sa/symeval.py`);
a loop is executed once with its target bound to the generic element of the iterated sequence, and the accumulators it updates are summarised:

  n += 1   at a site reached under conditions C      ->  n = n0 + pc(S, C)   (+1 after the statement),  n0 + cnt(S, C) after the loop
  L.append(e) at such a site, L fresh                ->  L = [ e | S, C ]
  D[k] = e at such a site, D fresh, k = b + pc(S, C) ->  D = { b + i: e_i }  in the order of [ e | S, C ]

S is the iteration space of the enclosing loops, pc(S, C) the number of earlier elements of S that satisfy C (closed form `v - lo` for an
unfiltered range, mixed radix for independent factors) and cnt its total.  Iterating over a built sequence, `enumerate`, `zip` with a range,
`dict.values()`, `itertools.product`, nested comprehensions, `range(len(A))` + `A[i]`, `divmod(i, len(B))` over `range(len(A) * len(B))` all
reduce to the same normal form, so equivalent ways of writing a scan are compared by their meaning and not by their shape.

Anything outside this fragment raises Unsupported (the caller then answers *undecided*, never a verdict).
"""
from __future__ import annotations

import ast
from dataclasses import dataclass, field

from .domains import to_poly
from .symeval import State, SymEval, is_const, show
from .tables import Poly


class Unsupported(Exception):
    pass


@dataclass(frozen=True)
class Comp:
    gens: tuple  # ((var, lo, hi, step), ...) - var = ("gv", n); lo / hi terms, step int
    conds: tuple  # terms that hold for the enumerated elements
    elt: tuple  # term


@dataclass
class SeqObj:
    kind: str  # "list" | "dict"
    comp: Comp | None = None  # None: empty so far
    base: int = 0  # dict keys are base, base + 1, ... in enumeration order
    node: ast.AST | None = None


def subterms(t):
    yield t
    if isinstance(t, tuple):
        for x in t:
            if isinstance(x, tuple):
                yield from subterms(x)


def subst(t, m):
    """Replace every occurrence of a key of m (a term) by its value."""
    if not m:
        return t
    if isinstance(t, tuple):
        try:
            if t in m:
                return m[t]
        except TypeError:
            pass
        return tuple(subst(x, m) if isinstance(x, tuple) else x for x in t)
    return t


def mentions(t, x) -> bool:
    return any(s == x for s in subterms(t))


def zero_uids(t):
    """Call terms carry a unique id per evaluation; the calls met here (getattr, len, .get, divmod) are pure, so the ids are dropped."""
    if isinstance(t, tuple):
        if t and t[0] == "call" and len(t) == 5:
            return ("call", 0) + tuple(zero_uids(x) if isinstance(x, tuple) else x for x in t[2:])
        return tuple(zero_uids(x) if isinstance(x, tuple) else x for x in t)
    return t


def _plain_increment(n):
    """`x = x + 1` / `x = 1 + x` on a plain name or self attribute: the AugAssign it is equivalent to, else None."""
    if isinstance(n, ast.Assign) and len(n.targets) == 1 and isinstance(n.value, ast.BinOp) and isinstance(n.value.op, ast.Add):
        t, a, b = n.targets[0], n.value.left, n.value.right
        one = lambda x: isinstance(x, ast.Constant) and x.value == 1 and not isinstance(x.value, bool)  # noqa: E731
        for x, y in ((a, b), (b, a)):
            if one(y) and ast.dump(x).replace("Load()", "Store()") == ast.dump(t):
                return t
    return None


class SeqAlg:
    def __init__(self, eng, f):
        self.eng, self.f = eng, f
        # module-level private functions (pure accessors such as `def _tables(identity): return TABLE[...]`) are inlined by the term evaluator;
        # private *methods* are executed by this interpreter itself (call_helper), because they may build sequences
        self.se = SymEval(eng.ce, f, inline=lambda call, callee, caller: (eng.inline_policy(call, callee, caller) if callee[0] == "func" else None))
        self._helper_depth = 0
        self.objs: list[SeqObj] = []
        self.nvar = 0
        self.registry: list[Comp] = []  # prototypes of the filtered spaces whose size is referred to as ("cnt", k)
        self.names: dict = {}  # atom term -> symbol name for polynomials
        self._gv_ranges: dict = {}  # generator variable over a plain range -> (lo, hi, step)
        self.splits: dict = {}  # generator variable -> (quotient variable, remainder variable, divisor)
        self.env = None

    # ------------------------------------------------------------------ symbols
    def fresh(self):
        self.nvar += 1
        return ("gv", self.nvar)

    def instance(self, c: Comp) -> Comp:
        m = {g[0]: self.fresh() for g in c.gens}
        for g in c.gens:
            self._gv_ranges[m[g[0]]] = (subst(g[1], m), subst(g[2], m), g[3])
            self.sym(m[g[0]])
        return Comp(tuple((m[g[0]], subst(g[1], m), subst(g[2], m), g[3]) for g in c.gens), tuple(subst(x, m) for x in c.conds), subst(c.elt, m))

    @staticmethod
    def canon(gens, conds):
        m = {g[0]: ("cv", i) for i, g in enumerate(gens)}
        return (tuple((m[g[0]], subst(g[1], m), subst(g[2], m), g[3]) for g in gens), tuple(subst(c, m) for c in conds))

    def sym(self, t):
        """symbol name of an atom in polynomial comparisons"""
        if t[0] in ("cnt", "pc", "gv", "digits"):
            if t not in self.names:
                self.names[t] = f"{t[0]}{len(self.names)}"
            return self.names[t]
        return show(t)

    def poly(self, t):
        return to_poly(t, self.sym)

    def same(self, a, b) -> bool:
        pa, pb = self.poly(a), self.poly(b)
        return pa is not None and pb is not None and pa == pb

    # ------------------------------------------------------------------ spaces: position and size
    def _factors(self, gens, conds):
        """Consecutive independent factors [(gens, conds)] of a space (outermost first)."""
        groups = [[i] for i in range(len(gens))]
        owner = list(range(len(gens)))

        def merge(a, b):
            lo, hi = min(owner[a], owner[b]), max(owner[a], owner[b])
            for i in range(len(gens)):
                if lo <= owner[i] <= hi:
                    owner[i] = lo

        for i, g in enumerate(gens):
            for j, h in enumerate(gens):
                if j != i and (mentions(g[1], h[0]) or mentions(g[2], h[0])):
                    merge(i, j)
        cowner = []
        for c in conds:
            vs = [i for i, g in enumerate(gens) if mentions(c, g[0])]
            for a in vs[1:]:
                merge(vs[0], a)
            cowner.append(vs)
        out = []
        for k in sorted(set(owner)):
            gi = [i for i in range(len(gens)) if owner[i] == k]
            cs = tuple(c for c, vs in zip(conds, cowner) if vs and owner[vs[0]] == k)
            out.append((tuple(gens[i] for i in gi), cs))
        free = tuple(c for c, vs in zip(conds, cowner) if not vs)  # conditions on no generator variable: all or nothing
        return out, free

    def pc(self, gens, conds):
        """Number of elements of the space before the current one (term)."""
        fs, free = self._factors(gens, conds)
        if free:
            return ("pc", tuple(gens), tuple(conds))
        total = None
        for k, (g, c) in enumerate(fs):
            p = self._pc1(g, c)
            for g2, c2 in fs[k + 1:]:
                p = ("bin", "*", p, self._cnt1(g2, c2))
            total = p if total is None else ("bin", "+", total, p)
        return total if total is not None else ("const", 0)

    def cnt(self, gens, conds):
        fs, free = self._factors(gens, conds)
        if free:
            return self._cnt_sym(gens, conds)
        total = None
        for g, c in fs:
            n = self._cnt1(g, c)
            total = n if total is None else ("bin", "*", total, n)
        return total if total is not None else ("const", 1)

    def _pc1(self, g, c):
        if len(g) == 1 and not c and g[0][3] in (1, -1):
            v, lo, hi, step = g[0]
            return ("bin", "-", v, lo) if step == 1 else ("bin", "-", lo, v)
        return ("pc", tuple(g), tuple(c))

    def _cnt1(self, g, c):
        if len(g) == 1 and not c and g[0][3] in (1, -1):
            v, lo, hi, step = g[0]
            return ("bin", "-", hi, lo) if step == 1 else ("bin", "-", lo, hi)
        return self._cnt_sym(g, c)

    def _cnt_sym(self, g, c):
        key = self.canon(g, c)
        for k, proto in enumerate(self.registry):
            if self.canon(proto.gens, proto.conds) == key:
                return ("cnt", k)
        self.registry.append(Comp(tuple(g), tuple(c), ("const", None)))
        return ("cnt", len(self.registry) - 1)

    # ------------------------------------------------------------------ objects
    def new_obj(self, kind, node=None):
        self.objs.append(SeqObj(kind, None, 0, node))
        return ("seqv", len(self.objs) - 1)

    def obj(self, t) -> SeqObj | None:
        return self.objs[t[1]] if isinstance(t, tuple) and t and t[0] == "seqv" else None

    # ------------------------------------------------------------------ expressions
    def _helper_of(self, node):
        """FuncInfo of a private method of the same class called as self._name(...), else None."""
        if isinstance(node, ast.Call) and isinstance(node.func, ast.Attribute) and isinstance(node.func.value, ast.Name) and node.func.value.id == self.se.selfname and self.f.cls:
            fi = self.eng.repo.funcs.get(f"{self.f.module}.{self.f.cls}.{node.func.attr}")
            if fi is not None and fi.name.startswith("_") and not fi.name.startswith("__") and not fi.is_property and fi.qualname != self.f.qualname:
                return fi
        if isinstance(node, ast.Call) and isinstance(node.func, ast.Name) and node.func.id.startswith("_") and not node.func.id.startswith("__"):
            # a module-level private function of the same module that builds a sequence (comprehension or loop in its body): executed here as well;
            # plain accessors are left to the term evaluator, which inlines them
            fi = self.eng.repo.funcs.get(f"{self.f.module}.{node.func.id}")
            if fi is not None and fi.cls is None and any(isinstance(n, (ast.ListComp, ast.For, ast.While)) for n in ast.walk(fi.node)):
                return fi
        return None

    def call_helper(self, fi, node, env):
        """Execute a private method of the class on the abstract state: parameters bound to the arguments, the instance fields shared with the caller."""
        if self.loop_stack or self._helper_depth >= 3:
            raise Unsupported(f"call of {fi.name} inside a loop / too deep")
        a = fi.node.args
        if a.vararg or a.kwarg or a.kwonlyargs or a.posonlyargs or any(isinstance(x, ast.Starred) for x in node.args):
            raise Unsupported(f"signature of {fi.name}")
        params = fi.params[1:] if fi.cls else fi.params
        vals = [self.expr(x, env) for x in node.args]
        cenv = {fi.params[0]: ("self",)} if fi.cls else {}
        for p_, v in zip(params, vals):
            cenv[p_] = v
        for k in node.keywords:
            if k.arg is None or k.arg not in params:
                raise Unsupported(f"keyword argument of {fi.name}")
            cenv[k.arg] = self.expr(k.value, env)
        defaults = [None] * (len(params) - len(a.defaults)) + list(a.defaults)
        for p_, d in zip(params, defaults):
            if p_ not in cenv:
                if d is None:
                    raise Unsupported(f"missing argument of {fi.name}")
                cenv[p_] = self.expr(d, {})
        for k, v in env.items():
            if k.startswith("self."):
                cenv[k] = v
        body = [st for st in fi.node.body if not (isinstance(st, ast.Expr) and isinstance(st.value, ast.Constant))]
        rets = [n for st in body for n in ast.walk(st) if isinstance(n, ast.Return)]
        if len(rets) > 1 or (rets and rets[0] is not body[-1]):
            raise Unsupported(f"{fi.name} returns from more than one place")
        self._helper_depth += 1
        saved_f, saved_se = self.f, self.se
        try:
            self.block(body, cenv, ())
        finally:
            self._helper_depth -= 1
            self.f, self.se = saved_f, saved_se
        for k, v in cenv.items():
            if k.startswith("self."):
                env[k] = v
        return cenv.get("__return__", ("const", None))

    def expr(self, node, env):
        fi_ = self._helper_of(node)
        if fi_ is not None:
            return self.call_helper(fi_, node, env)
        if isinstance(node, ast.ListComp):
            c = self.comprehension(node, env)
            ref = self.new_obj("list", node)
            self.objs[ref[1]].comp = c
            return ref
        if (isinstance(node, ast.List) and not node.elts) or (isinstance(node, ast.Call) and isinstance(node.func, ast.Name) and node.func.id == "list" and not node.args and not node.keywords):
            return self.new_obj("list", node)
        if (isinstance(node, ast.Dict) and not node.keys) or (isinstance(node, ast.Call) and isinstance(node.func, ast.Name) and node.func.id == "dict" and not node.args and not node.keywords):
            return self.new_obj("dict", node)
        dz = self._dict_zip_count(node, env)
        if dz is not None:
            return dz
        if isinstance(node, ast.Call) and isinstance(node.func, ast.Name) and (node.func.id in ("range", "enumerate", "zip", "reversed") or self._itertools_name(node.func.id) in ("compress", "product")
                                                                                or (node.func.id in ("list", "tuple") and len(node.args) == 1 and isinstance(node.args[0], ast.Call)
                                                                                    and isinstance(node.args[0].func, ast.Name) and self._itertools_name(node.args[0].func.id) in ("compress", "product"))) or \
                (isinstance(node, ast.Call) and isinstance(node.func, ast.Attribute) and node.func.attr in ("values", "items", "keys") and self._is_seq_expr(node.func.value, env)):
            c = self.as_comp(node, env)
            ref = self.new_obj("list", node)
            self.objs[ref[1]].comp = c
            return ref
        for n in ast.walk(node):
            if isinstance(n, (ast.ListComp, ast.SetComp, ast.DictComp, ast.GeneratorExp, ast.Lambda, ast.Await, ast.Yield, ast.YieldFrom, ast.NamedExpr)) and n is not node:
                raise Unsupported(f"{type(n).__name__} inside an expression")
        st = State(dict(env))
        try:
            t = self.se.expr(node, st)
        except Exception as err:  # noqa: BLE001
            raise Unsupported(f"expression not evaluated: {err}") from err
        return self.res(t)

    def _itertools_name(self, name):
        """The itertools function a module-level name is bound to by `from itertools import f [as name]`, else None."""
        tree = self.eng.repo.modules[self.f.module].tree
        for n in tree.body:
            if isinstance(n, ast.ImportFrom) and n.module == "itertools":
                for a in n.names:
                    if (a.asname or a.name) == name:
                        return a.name
        return None

    def _dict_zip_count(self, node, env):
        """dict(zip(count(k), X)) / dict(enumerate(X, k)): the dict keyed k, k + 1, ... over the elements of X in order."""
        if not (isinstance(node, ast.Call) and isinstance(node.func, ast.Name) and node.func.id == "dict" and len(node.args) == 1 and not node.keywords and isinstance(node.args[0], ast.Call)):
            return None
        inner = node.args[0]
        if not isinstance(inner.func, ast.Name):
            return None
        base, seq = None, None
        if inner.func.id == "zip" and len(inner.args) == 2 and isinstance(inner.args[0], ast.Call) and isinstance(inner.args[0].func, ast.Name) and self._itertools_name(inner.args[0].func.id) == "count" \
                and len(inner.args[0].args) <= 2 and not inner.args[0].keywords:
            ca = inner.args[0].args
            if len(ca) == 2 and not (isinstance(ca[1], ast.Constant) and ca[1].value == 1):
                return None
            b = self.expr(ca[0], env) if ca else ("const", 0)
            base, seq = b, inner.args[1]
        elif inner.func.id == "enumerate" and 1 <= len(inner.args) <= 2:
            base = self.expr(inner.args[1], env) if len(inner.args) == 2 else ("const", 0)
            for k in inner.keywords:
                if k.arg == "start":
                    base = self.expr(k.value, env)
            seq = inner.args[0]
        if base is None or not (is_const(base) and isinstance(base[1], int)):
            return None
        c = self.as_comp(seq, env)
        ref = self.new_obj("dict", node)
        self.objs[ref[1]].comp, self.objs[ref[1]].base = c, base[1]
        return ref

    def _const_table_comp(self, seq):
        """A constant sequence whose structure is an arithmetic progression (of ints, or of tuples whose components are each an arithmetic progression or
        a power of two with such an exponent): the comprehension over a range that generates it.  [(i, 1 << 64 - i) for i in range(65)] folded to a
        constant is recognised as exactly that."""
        seq = list(seq)
        n = len(seq)
        if n < 2:
            return None

        def progression(xs):
            if not all(isinstance(x, int) and not isinstance(x, bool) for x in xs):
                return None
            d = xs[1] - xs[0]
            return (xs[0], d) if all(xs[i] - xs[i - 1] == d for i in range(1, len(xs))) else None

        rows = [x if isinstance(x, tuple) else (x,) for x in seq]
        width = len(rows[0])
        if any(len(r) != width for r in rows):
            return None
        v = self.fresh()
        self._gv_ranges[v] = (("const", 0), ("const", n), 1)
        self.sym(v)
        comps = []
        for j in range(width):
            col = [r[j] for r in rows]
            ap = progression(col)
            if ap is not None:
                comps.append(("bin", "+", ("const", ap[0]), ("bin", "*", ("const", ap[1]), v)))
                continue
            if all(isinstance(x, int) and not isinstance(x, bool) and x > 0 and x & (x - 1) == 0 for x in col):
                ape = progression([x.bit_length() - 1 for x in col])
                if ape is not None:
                    comps.append(("bin", "<<", ("const", 1), ("bin", "+", ("const", ape[0]), ("bin", "*", ("const", ape[1]), v))))
                    continue
            return None
        elt = ("tuple", tuple(comps)) if isinstance(seq[0], tuple) else comps[0]
        return Comp(((v, ("const", 0), ("const", n), 1),), (), elt)

    def _is_seq_expr(self, node, env) -> bool:
        try:
            st = State(dict(env))
            return self.obj(self.se.expr(node, st)) is not None
        except Exception:  # noqa: BLE001
            return False

    def res(self, t):
        """Normalise a scalar term: sizes and element lookups of built sequences, divmod by a size."""
        if not isinstance(t, tuple):
            return t
        t = tuple(self.res(x) if isinstance(x, tuple) else x for x in t)
        if t and t[0] == "call" and len(t) == 5:
            f, args = t[2], t[3]
            if f == ("builtin", "len") and len(args) == 1 and self.obj(args[0]) is not None:
                o = self.obj(args[0])
                if o.comp is None:
                    return ("const", 0)
                return self.cnt(o.comp.gens, o.comp.conds)
            if f == ("builtin", "len") and len(args) == 1 and args[0][0] in ("accl", "accd"):
                return ("acclen", args[0][1], args[0][2])
            if f == ("builtin", "divmod") and len(args) == 2:
                qr = self._divmod(args[0], args[1])
                if qr is not None:
                    return ("tuple", qr)
            return ("call", 0) + t[2:]
        if t and t[0] == "bin" and t[1] in ("//", "%"):
            qr = self._divmod(t[2], t[3])
            if qr is not None:
                return qr[0] if t[1] == "//" else qr[1]
        if t and t[0] == "proj" and isinstance(t[1], tuple) and t[1][0] == "tuple" and isinstance(t[2], int) and t[2] < len(t[1][1]):
            return t[1][1][t[2]]
        if t and t[0] == "idx" and t[1][0] == "tuple" and is_const(t[2]) and isinstance(t[2][1], int) and -len(t[1][1]) <= t[2][1] < len(t[1][1]):
            return t[1][1][t[2][1]]
        if t and t[0] == "idx" and self.obj(t[1]) is not None:
            r = self._nth(self.obj(t[1]), t[2])
            if r is not None:
                return r
        return t

    def _divmod(self, num, den):
        """(q, r) with num == q * den + r and 0 <= r < den: r a position inside a space of size den, or num a variable ranging over
        range(X * den), which is then split into a pair of variables (quotient in range(X), remainder in range(den))."""
        pn, pd = self.poly(num), self.poly(den)
        if pn is None or pd is None or pd.is_const():
            return None
        for atom, name in list(self.names.items()):
            if atom[0] == "pc":
                size = self.poly(self.cnt(atom[1], atom[2]))
            elif atom[0] == "gv":
                size = self._range_size_of(atom)
            else:
                continue
            if size is None or size != pd or not self._poly_mentions(pn, name):
                continue
            rest = pn - Poly.sym(name)
            q = self._div_exact(rest, pd)
            if q is not None and not self._poly_mentions(q, name):
                return (self._poly_to_term(q), atom)
        if len(pn.t) == 1:
            (mono, coef), = pn.t.items()
            inv = {v: k for k, v in self.names.items()}
            if coef == 1 and len(mono) == 1 and inv.get(mono[0], ("?",))[0] == "gv":
                v = inv[mono[0]]
                if v in self.splits:
                    s_, g_, d_ = self.splits[v]
                    return (s_, g_) if self.same(d_, den) else None
                lo, hi, step = self._gv_ranges.get(v, (None, None, None))
                if step == 1 and lo == ("const", 0):
                    q = self._div_exact(self.poly(hi), pd) if self.poly(hi) is not None else None
                    if q is not None:
                        s_, g_ = self.fresh(), self.fresh()
                        self._gv_ranges[s_] = (("const", 0), self._poly_to_term(q), 1)
                        self._gv_ranges[g_] = (("const", 0), den, 1)
                        self.sym(s_), self.sym(g_)
                        self.splits[v] = (s_, g_, den)
                        return (s_, g_)
        return None

    def _apply_splits(self, gens, terms):
        """Replace split variables by their (quotient, remainder) pair in a generator list and in terms."""
        if not self.splits:
            return tuple(gens), tuple(terms)
        m, out = {}, []
        for g in gens:
            if g[0] in self.splits:
                s_, g_, d_ = self.splits[g[0]]
                m[g[0]] = ("bin", "+", ("bin", "*", s_, d_), g_)
                out.append((s_,) + self._gv_ranges[s_])
                out.append((g_,) + self._gv_ranges[g_])
            else:
                out.append(g)
        return tuple((g[0], subst(g[1], m), subst(g[2], m), g[3]) for g in out), tuple(subst(t, m) for t in terms)

    def _range_size_of(self, gv):
        info = self._gv_ranges.get(gv)
        if info is None:
            return None
        lo, hi, step = info
        if step != 1 or lo != ("const", 0):
            return None
        return self.poly(hi)

    @staticmethod
    def _poly_mentions(p: Poly, name) -> bool:
        return any(name in mono for mono in p.t)

    def _div_exact(self, p: Poly, d: Poly):
        """p / d when d is a single symbol (or constant) that divides every monomial of p."""
        if len(d.t) != 1:
            return None
        (mono, coef), = d.t.items()
        out = {}
        for m, c in p.t.items():
            ml = list(m)
            for s in mono:
                if s in ml:
                    ml.remove(s)
                else:
                    return None
            out[tuple(ml)] = c / coef
        return Poly(out)

    def _poly_to_term(self, p: Poly):
        inv = {v: k for k, v in self.names.items()}
        total = None
        for mono, coef in sorted(p.t.items()):
            if coef.denominator != 1:
                raise Unsupported("non-integral quotient")
            term = ("const", int(coef))
            for s in mono:
                atom = inv.get(s)
                if atom is None:
                    raise Unsupported(f"symbol {s} has no term")
                term = atom if term == ("const", 1) else ("bin", "*", term, atom)
            total = term if total is None else ("bin", "+", total, term)
        return total if total is not None else ("const", 0)

    def _nth(self, o: SeqObj, key):
        """Element of a built sequence at position `key` (list) / under key `key` (dict), when the key is the position of an instance of its space."""
        if o.comp is None:
            return None
        pk = self.poly(key)
        if pk is None:
            return None
        pk = pk - o.base if o.kind == "dict" else pk
        want = self.canon(o.comp.gens, o.comp.conds)
        for atom, name in list(self.names.items()):
            if pk == Poly.sym(name):
                if atom[0] == "pc" and self.canon(atom[1], atom[2]) == want:
                    m = {g0[0]: g1[0] for g0, g1 in zip(o.comp.gens, atom[1])}
                    return subst(o.comp.elt, m)
        # a product of two independent spaces addressed by  pos(a) * size(B) + pos(b)
        if o.kind == "list":
            fs, free = self._factors(o.comp.gens, o.comp.conds)
            if len(fs) == 2 and not free:
                (ga, ca), (gb, cb) = fs
                wa, wb = self.canon(ga, ca), self.canon(gb, cb)
                nb = self.poly(self.cnt(gb, cb))

                def positions(g, c, w):
                    if len(g) == 1 and not c and g[0][3] == 1:
                        return []  # (an unfiltered range: no position symbol of its own - not needed by the shapes met so far)
                    return [(atom, name) for atom, name in list(self.names.items()) if atom[0] == "pc" and self.canon(atom[1], atom[2]) == w]

                if nb is not None:
                    for aa, na in positions(ga, ca, wa):
                        for ab, nbn in positions(gb, cb, wb):
                            if pk == Poly.sym(na) * nb + Poly.sym(nbn):
                                m = {g0[0]: g1[0] for g0, g1 in zip(ga, aa[1])}
                                m.update({g0[0]: g1[0] for g0, g1 in zip(gb, ab[1])})
                                return subst(o.comp.elt, m)
        # closed-form position of an unfiltered single range
        if len(o.comp.gens) == 1 and not o.comp.conds and o.comp.gens[0][3] == 1:
            v, lo, hi, step = o.comp.gens[0]
            return subst(o.comp.elt, {v: ("bin", "+", key if o.kind == "list" else ("bin", "-", key, ("const", o.base)), lo)})
        return None

    # ------------------------------------------------------------------ iterables
    def as_comp(self, node, env) -> Comp:
        """Fresh instance of the sequence an expression denotes."""
        if isinstance(node, ast.ListComp):
            return self.comprehension(node, env)
        if isinstance(node, ast.Call) and isinstance(node.func, ast.Name):
            fn = node.func.id
            if fn == "range" and 1 <= len(node.args) <= 3 and not node.keywords:
                a = [self.expr(x, env) for x in node.args]
                lo, hi, step = (("const", 0), a[0], ("const", 1)) if len(a) == 1 else (a[0], a[1], a[2] if len(a) == 3 else ("const", 1))
                if not (is_const(step) and step[1] in (1, -1)):
                    raise Unsupported("range step")
                v = self.fresh()
                self._gv_ranges[v] = (lo, hi, step[1])
                self.sym(v)
                return Comp(((v, lo, hi, step[1]),), (), v)
            if fn == "enumerate" and 1 <= len(node.args) <= 2:
                c = self.as_comp(node.args[0], env)
                start = self.expr(node.args[1], env) if len(node.args) == 2 else ("const", 0)
                for k in node.keywords:
                    if k.arg == "start":
                        start = self.expr(k.value, env)
                    else:
                        raise Unsupported("enumerate keyword")
                pos = self.pc(c.gens, c.conds)
                self._note(pos)
                return Comp(c.gens, c.conds, ("tuple", (("bin", "+", pos, start), c.elt)))
            if fn == "zip" and len(node.args) == 2 and not node.keywords:
                a, b = self.as_comp(node.args[0], env), self.as_comp(node.args[1], env)
                for x, y, swap in ((a, b, False), (b, a, True)):
                    # y indexed by an unfiltered range: its i-th element is elt(lo + step * i); the lengths must agree (zip silently drops the excess)
                    if len(y.gens) == 1 and not y.conds:
                        v, lo, hi, step = y.gens[0]
                        ylen = ("bin", "-", hi, lo) if step == 1 else ("bin", "-", lo, hi)
                        xlen = self._noted(self.cnt(x.gens, x.conds))
                        if not self.same(ylen, xlen):
                            py, px = self.poly(ylen), self.poly(xlen)
                            dig = {n_ for t_, n_ in self.names.items() if t_[0] == "digits"}
                            if py is not None and px is not None and any(self._poly_mentions(q, d) for q in (py, px) for d in dig):
                                raise Mismatch(f"zip({ast.unparse(node.args[0])[:40]}, {ast.unparse(node.args[1])[:40]})", "two sequences of the same length, element i paired with element i",
                                               "the length of one side is the number of digit groups of a mask value: leading all-zero groups are not produced, so the pairing shifts (or drops elements) whenever the mask starts with zeros")
                            continue
                        pos = self.pc(x.gens, x.conds)
                        self._note(pos)
                        at = ("bin", "+", lo, pos) if step == 1 else ("bin", "-", lo, pos)
                        ye = subst(y.elt, {v: at})
                        return Comp(x.gens, x.conds, ("tuple", (ye, x.elt) if swap else (x.elt, ye)))
                raise Unsupported("zip of sequences whose positions cannot be related")
            if fn == "reversed" and len(node.args) == 1:
                c = self.as_comp(node.args[0], env)
                if len(c.gens) == 1 and not c.conds:
                    v, lo, hi, step = c.gens[0]
                    nv = self.fresh()
                    if step == 1:
                        g = (nv, ("bin", "-", hi, ("const", 1)), ("bin", "-", lo, ("const", 1)), -1)
                    else:
                        g = (nv, ("bin", "+", hi, ("const", 1)), ("bin", "+", lo, ("const", 1)), 1)
                    self._gv_ranges[nv] = (g[1], g[2], g[3])
                    self.sym(nv)
                    return Comp((g,), (), subst(c.elt, {v: nv}))
                raise Unsupported("reversed of a filtered sequence")
            if fn in ("list", "tuple", "iter") and len(node.args) == 1:
                return self.as_comp(node.args[0], env)
            if self._itertools_name(fn) == "compress" and len(node.args) == 2 and not node.keywords:
                # compress(data, selectors): the elements of data whose selector (same position) is true
                z = ast.Call(func=ast.Name(id="zip", ctx=ast.Load()), args=list(node.args), keywords=[])
                ast.copy_location(z, node)
                ast.fix_missing_locations(z)
                c = self.as_comp(z, env)
                if c.elt[0] != "tuple" or len(c.elt[1]) != 2:
                    raise Unsupported("compress")
                return Comp(c.gens, c.conds + (self.se.cond(c.elt[1][1]),), c.elt[1][0])
            if self._itertools_name(fn) == "product" and len(node.args) == 2 and not node.keywords:
                a, b = self.as_comp(node.args[0], env), self.as_comp(node.args[1], env)
                return Comp(a.gens + b.gens, a.conds + b.conds, ("tuple", (a.elt, b.elt)))
        if isinstance(node, ast.Call) and isinstance(node.func, ast.Attribute) and not node.args and node.func.attr in ("values", "items", "keys"):
            base = self.expr(node.func.value, env)
            o = self.obj(base)
            if o is not None and o.kind == "dict":
                if o.comp is None:
                    raise Unsupported("iteration over a dict that is still empty")
                c = self.instance(o.comp)
                key = ("bin", "+", self._noted(self.pc(c.gens, c.conds)), ("const", o.base))
                e = {"values": c.elt, "keys": key, "items": ("tuple", (key, c.elt))}[node.func.attr]
                return Comp(c.gens, c.conds, e)
        if isinstance(node, ast.Call) and isinstance(node.func, ast.Attribute) and node.func.attr == "product" and len(node.args) == 2 and isinstance(node.func.value, ast.Name) and node.func.value.id == "itertools":
            a, b = self.as_comp(node.args[0], env), self.as_comp(node.args[1], env)
            return Comp(a.gens + b.gens, a.conds + b.conds, ("tuple", (a.elt, b.elt)))
        t = self.expr(node, env)
        o = self.obj(t)
        if o is not None:
            if o.comp is None:
                raise Unsupported("iteration over a sequence that is still empty")
            c = self.instance(o.comp)
            if o.kind == "dict":
                return Comp(c.gens, c.conds, ("bin", "+", self._noted(self.pc(c.gens, c.conds)), ("const", o.base)))
            return c
        tab = t[1] if (is_const(t) and isinstance(t[1], (tuple, list))) else (t[1].v if (t[0] == "gval" and isinstance(t[1].v, (list, tuple))) else None)
        if tab is not None:
            c = self._const_table_comp(tab)
            if c is not None:
                return c
        if is_const(t) and isinstance(t[1], range) and t[1].step in (1, -1):
            v = self.fresh()
            self._gv_ranges[v] = (("const", t[1].start), ("const", t[1].stop), t[1].step)
            self.sym(v)
            return Comp(((v, ("const", t[1].start), ("const", t[1].stop), t[1].step),), (), v)
        raise Unsupported(f"iteration over {show(t)[:60]}")

    def _is_itertools(self, name) -> bool:
        tree = self.eng.repo.modules[self.f.module].tree
        return any(isinstance(n, ast.ImportFrom) and n.module == "itertools" and any((a.asname or a.name) == name and a.name == "product" for a in n.names) for n in tree.body)

    def _note(self, pos):
        for st in subterms(pos):
            if isinstance(st, tuple) and st and st[0] in ("pc", "cnt", "gv"):
                self.sym(st)

    def _noted(self, pos):
        self._note(pos)
        return pos

    def comprehension(self, node: ast.ListComp, env) -> Comp:
        env = dict(env)
        gens, conds = (), ()
        for g in node.generators:
            if g.is_async:
                raise Unsupported("async comprehension")
            c = self.as_comp(g.iter, env)
            self.bind(g.target, c.elt, env)
            gens, conds = gens + c.gens, conds + c.conds
            for test in g.ifs:
                conds = conds + (self.cond(test, env),)
        return Comp(gens, conds, self.expr(node.elt, env))

    def cond(self, test, env):
        t = self.expr(test, env)
        return self.se.cond(t) if hasattr(self.se, "cond") else t

    def bind(self, target, value, env):
        if isinstance(target, ast.Name):
            env[target.id] = value
        elif isinstance(target, (ast.Tuple, ast.List)):
            for i, e in enumerate(target.elts):
                if isinstance(e, ast.Starred):
                    raise Unsupported("starred target")
                self.bind(e, self.res(self.se.proj(value, i)), env)
        elif isinstance(target, ast.Attribute) and isinstance(target.value, ast.Name) and target.value.id == self.se.selfname:
            env["self." + target.attr] = value
        else:
            raise Unsupported(f"assignment target {type(target).__name__}")

    # ------------------------------------------------------------------ statements
    def run(self):
        env = {p: ("param", p) for p in self.f.params}
        if self.se.selfname:
            env[self.se.selfname] = ("self",)
        self.loop_stack = []  # [{"gens", "conds", "accs"}]
        self.block(self.f.node.body, env, ())
        self.env = env
        return env

    def block(self, stmts, env, conds):
        for s in stmts:
            self.stmt(s, env, conds)

    def _key(self, node):
        """accumulator key of a Name / self.attr expression"""
        if isinstance(node, ast.Name):
            return node.id
        if isinstance(node, ast.Attribute) and isinstance(node.value, ast.Name) and node.value.id == self.se.selfname:
            return "self." + node.attr
        return None

    def _space(self, conds):
        gens = tuple(g for fr in self.loop_stack for g in fr["gens"])
        cs = tuple(c for fr in self.loop_stack for c in fr["conds"]) + tuple(conds)
        return self._apply_splits(gens, cs)

    def _acc(self, key):
        for fr in self.loop_stack:
            if key in fr["accs"]:
                return fr["accs"][key]
        return None

    def stmt(self, s, env, conds):
        if isinstance(s, ast.Expr):
            v = s.value
            if isinstance(v, ast.Constant):
                return
            if isinstance(v, ast.Call) and isinstance(v.func, ast.Attribute) and v.func.attr == "append" and len(v.args) == 1 and self._key(v.func.value):
                key = self._key(v.func.value)
                acc = self._acc(key)
                if acc is None or acc["kind"] != "list" or acc.get("site") is not None:
                    raise Unsupported(f"append to `{key}` outside the loop that builds it")
                acc["site"], acc["elt"] = self._space(conds), self.expr(v.args[0], env)
                env[key] = ("accl", key, 1)
                return
            if self._helper_of(v) is not None:
                self.call_helper(self._helper_of(v), v, env)
                return
            if isinstance(v, ast.Call) and isinstance(v.func, ast.Attribute) and v.func.attr == "update" and len(v.args) == 1 and not v.keywords and self._key(v.func.value) and not self.loop_stack and not conds:
                # D.update(zip(range(k, len(X) + k), X)) on a dict that is still empty: the dict keyed k, k + 1, ... over the elements of X
                key = self._key(v.func.value)
                o = self.obj(env.get(key))
                z = v.args[0]
                if o is not None and o.kind == "dict" and o.comp is None and isinstance(z, ast.Call):
                    # D.update(enumerate(X, k)) / D.update(zip(count(k), X)) on a dict that is still empty is dict(...) of the same
                    fake = ast.copy_location(ast.Call(func=ast.Name(id="dict", ctx=ast.Load()), args=[z], keywords=[]), v)
                    ast.fix_missing_locations(fake)
                    ref = self._dict_zip_count(fake, env)
                    if ref is not None:
                        env[key] = ref
                        return
                if o is not None and o.kind == "dict" and o.comp is None and isinstance(z, ast.Call) and isinstance(z.func, ast.Name) and z.func.id == "zip" and len(z.args) == 2 and not z.keywords:
                    rng = self.expr(z.args[0], env) if not isinstance(z.args[0], ast.Call) else None
                    ro = self.obj(rng) if rng is not None else None
                    rcomp = ro.comp if ro is not None and ro.comp is not None else self.as_comp(z.args[0], env)
                    xc = self.as_comp(z.args[1], env)
                    if len(rcomp.gens) == 1 and not rcomp.conds and rcomp.gens[0][3] == 1 and rcomp.elt == rcomp.gens[0][0] and is_const(rcomp.gens[0][1]) and isinstance(rcomp.gens[0][1][1], int):
                        k0 = rcomp.gens[0][1][1]
                        n_keys = ("bin", "-", rcomp.gens[0][2], rcomp.gens[0][1])
                        if self.same(n_keys, self.cnt(xc.gens, xc.conds)):
                            ref = self.new_obj("dict", v)
                            self.objs[ref[1]].comp, self.objs[ref[1]].base = xc, k0
                            env[key] = ref
                            return
            raise Unsupported(f"expression statement {ast.unparse(v)[:50]}")
        if isinstance(s, ast.Assign) and _plain_increment(s) is not None and self._key(s.targets[0]) and (self._acc(self._key(s.targets[0])) or {}).get("kind") == "counter":
            s2 = ast.AugAssign(target=s.targets[0], op=ast.Add(), value=ast.Constant(value=1))
            ast.copy_location(s2, s)
            return self.stmt(s2, env, conds)
        if isinstance(s, ast.Assign):
            if len(s.targets) != 1:
                # a = b = 0
                val = self.expr(s.value, env)
                for t in s.targets:
                    self._assign(t, val, env, conds, s)
                return
            self._assign(s.targets[0], None, env, conds, s)
            return
        if isinstance(s, ast.AnnAssign) and s.value is not None:
            self._assign(s.target, None, env, conds, s)
            return
        if isinstance(s, ast.AugAssign):
            key = self._key(s.target)
            acc = self._acc(key) if key else None
            if acc is not None and acc["kind"] == "counter" and isinstance(s.op, ast.Add) and isinstance(s.value, ast.Constant) and s.value.value == 1 and acc.get("site") is None:
                acc["site"] = self._space(conds)
                cur = env.get(key)
                if not (isinstance(cur, tuple) and cur[0] == "ctr"):
                    raise Unsupported(f"counter `{key}` modified in an unexpected way")
                env[key] = ("ctr", key, cur[2] + 1)
                return
            if key and not self.loop_stack and isinstance(s.target, ast.Name):
                env[key] = self.res(("bin", {ast.Add: "+", ast.Sub: "-", ast.Mult: "*"}.get(type(s.op), "?"), env.get(key, ("undef", key)), self.expr(s.value, env)))
                if env[key][1] == "?":
                    raise Unsupported("augmented assignment operator")
                return
            raise Unsupported(f"augmented assignment {ast.unparse(s)[:50]}")
        if isinstance(s, ast.If):
            c = self.cond(s.test, env)
            if is_const(c):
                self.block(s.body if c[1] else s.orelse, env, conds)
                return
            e1, e2 = dict(env), dict(env)
            self.block(s.body, e1, conds + (c,))
            self.block(s.orelse, e2, conds + (("not", c),))
            for k in set(e1) | set(e2):
                a, b = e1.get(k, ("undef", k)), e2.get(k, ("undef", k))
                env[k] = a if a == b else ("ite", c, a, b)
            return
        if isinstance(s, ast.For):
            self.loop(s, env, conds)
            return
        if isinstance(s, ast.While):
            # a counted `while` (`i = a; while i < N: ...; i += 1`, the increment first, last or in between) is the `for` over range(a, N) the
            # term evaluator makes of it
            from .symeval import _counter_while, _probe_while

            cf = _counter_while(s, self.f.node, env) or _probe_while(s, self.f.node, env)
            if cf is not None:
                self.loop(cf, env, conds)
                return
        if isinstance(s, ast.While) and not self.loop_stack and not conds:
            self.peel(s, env)
            return
        if isinstance(s, (ast.Pass,)):
            return
        if isinstance(s, ast.Return) and not self.loop_stack and not conds:
            env["__return__"] = self.expr(s.value, env) if s.value is not None else ("const", None)
            return
        raise Unsupported(f"statement {type(s).__name__}")

    def peel(self, s: ast.While, env):
        """while m: L.append(e(m)); m >>= k   - L receives one element per k-bit group of m, lowest group first, until the rest of m is zero:
        the number of elements is the number of groups up to the highest set bit (leading all-zero groups produce nothing)."""
        t = s.test
        if isinstance(t, ast.Compare) and len(t.ops) == 1 and isinstance(t.ops[0], (ast.NotEq, ast.Gt)) and isinstance(t.comparators[0], ast.Constant) and t.comparators[0].value == 0:
            t = t.left
        if not isinstance(t, ast.Name) or s.orelse or len(s.body) != 2:
            raise Unsupported("while loop")
        m = t.id
        app = [x for x in s.body if isinstance(x, ast.Expr) and isinstance(x.value, ast.Call) and isinstance(x.value.func, ast.Attribute) and x.value.func.attr == "append" and len(x.value.args) == 1 and self._key(x.value.func.value)]
        shf = [x for x in s.body if (isinstance(x, ast.AugAssign) and isinstance(x.op, ast.RShift) and isinstance(x.target, ast.Name) and x.target.id == m)
               or (isinstance(x, ast.Assign) and len(x.targets) == 1 and isinstance(x.targets[0], ast.Name) and x.targets[0].id == m and isinstance(x.value, ast.BinOp) and isinstance(x.value.op, ast.RShift) and isinstance(x.value.left, ast.Name) and x.value.left.id == m)]
        if len(app) != 1 or len(shf) != 1 or m not in env:
            raise Unsupported("while loop")
        lk = self._key(app[0].value.func.value)
        o = self.obj(env.get(lk))
        if o is None or o.kind != "list" or o.comp is not None:
            raise Unsupported("while loop appends to something that is not a new empty list")
        knode = shf[0].value if isinstance(shf[0], ast.AugAssign) else shf[0].value.right
        k = self.expr(knode, env)
        if any(isinstance(n, ast.Name) and n.id in (m, lk) for n in ast.walk(knode)):
            raise Unsupported("while loop")
        m0 = env[m]
        j = self.fresh()
        digits = ("digits", m0, k)
        self.sym(digits)
        self._gv_ranges[j] = (("const", 0), digits, 1)
        self.sym(j)
        after = s.body.index(app[0]) > s.body.index(shf[0])
        cur = ("bin", ">>", m0, ("bin", "*", k, ("bin", "+", j, ("const", 1)) if after else j))
        e2 = dict(env)
        e2[m] = cur
        o.comp = Comp(((j, ("const", 0), digits, 1),), (), self.expr(app[0].value.args[0], e2))
        env[m] = ("const", 0)

    def _assign(self, target, val, env, conds, s):
        if isinstance(target, ast.Subscript):
            key = self._key(target.value)
            acc = self._acc(key) if key else None
            if acc is None or acc["kind"] != "dict" or acc.get("site") is not None:
                raise Unsupported(f"item store into `{ast.unparse(target.value)}` outside the loop that builds it")
            acc["site"] = self._space(conds)
            acc["key"] = self.expr(target.slice, env)
            acc["elt"] = val if val is not None else self.expr(s.value, env)
            env[key] = ("accd", key, 1)
            return
        if val is None:
            val = self.expr(s.value, env)
        k = self._key(target)
        if k is not None and self._acc(k) is not None:
            raise Unsupported(f"`{k}` is rebound inside the loop that accumulates it")
        self.bind(target, val, env)

    def _scan_accs(self, loop: ast.For, env, claimed):
        """Accumulators of a loop: names bound before it that its body (at any depth) updates by `+= 1`, `.append(x)` or `[k] = v` at exactly one site."""
        sites: dict = {}
        stores: dict = {}
        for n in ast.walk(loop):
            if n is loop.target or any(n is x for x in ast.walk(loop.target)):
                continue
            if _plain_increment(n) is not None and self._key(n.targets[0]):
                sites.setdefault(self._key(n.targets[0]), []).append(("counter", n))
            elif isinstance(n, ast.AugAssign):
                k = self._key(n.target)
                if k:
                    sites.setdefault(k, []).append(("counter" if isinstance(n.op, ast.Add) and isinstance(n.value, ast.Constant) and n.value.value == 1 and not isinstance(n.value.value, bool) else "other", n))
            elif isinstance(n, ast.Call) and isinstance(n.func, ast.Attribute) and self._key(n.func.value) and n.func.attr in ("append", "extend", "insert", "pop", "remove", "clear", "update", "setdefault", "popitem", "sort", "reverse", "add", "discard"):
                sites.setdefault(self._key(n.func.value), []).append(("list" if n.func.attr == "append" else "other", n))
            elif isinstance(n, ast.Subscript) and isinstance(n.ctx, (ast.Store, ast.Del)) and self._key(n.value):
                sites.setdefault(self._key(n.value), []).append(("dict" if isinstance(n.ctx, ast.Store) else "other", n))
            elif isinstance(n, (ast.Name, ast.Attribute)) and isinstance(getattr(n, "ctx", None), (ast.Store, ast.Del)) and self._key(n):
                stores.setdefault(self._key(n), []).append(n)
        accs = {}
        for k, ss in sites.items():
            if k in claimed or k not in env:
                continue
            plain = [x for x in stores.get(k, []) if not any((isinstance(p, ast.AugAssign) and p.target is x) or (isinstance(p, ast.Assign) and p.targets[0] is x) for _, p in ss)]
            if len(ss) != 1 or ss[0][0] == "other" or plain:
                raise Unsupported(f"`{k}` is updated at {len(ss)} site(s) / in a way that is not followed")
            kind = ss[0][0]
            init = env[k]
            if kind in ("list", "dict"):
                o = self.obj(init)
                if o is None or o.kind != kind or o.comp is not None:
                    raise Unsupported(f"`{k}` is not a new empty {kind} when the loop starts")
            accs[k] = {"kind": kind, "init": init, "site": None}
        return accs

    @staticmethod
    def _guards_to_ifs(stmts):
        """`if T: continue` followed by the rest of the loop body is `if not T: <rest>` (guard-clause style of a scan loop)."""
        out = []
        for i, st in enumerate(stmts):
            if isinstance(st, ast.If) and not st.orelse and len(st.body) == 1 and isinstance(st.body[0], ast.Continue):
                rest = SeqAlg._guards_to_ifs(stmts[i + 1:])
                if rest:
                    neg = st.test.operand if isinstance(st.test, ast.UnaryOp) and isinstance(st.test.op, ast.Not) else ast.copy_location(ast.UnaryOp(op=ast.Not(), operand=st.test), st.test)
                    out.append(ast.copy_location(ast.If(test=neg, body=rest, orelse=[]), st))
                return out
            if isinstance(st, ast.For) and not st.orelse:
                nb = SeqAlg._guards_to_ifs(st.body)
                if len(nb) != len(st.body) or any(a is not b for a, b in zip(nb, st.body)):
                    st = ast.copy_location(ast.For(target=st.target, iter=st.iter, body=nb or [ast.copy_location(ast.Pass(), st)], orelse=[], type_comment=None), st)
                    ast.fix_missing_locations(st)
            out.append(st)
        return out

    def _whiles_to_fors(self, stmts):
        """Counted `while` loops nested in a scan loop, as the `for` loops they stand for (see stmt)."""
        from .symeval import _counter_while

        out, changed = [], False
        for st in stmts:
            if isinstance(st, ast.While):
                cf = _counter_while(st, self.f.node, {})
                if cf is not None:
                    st, changed = cf, True
            if isinstance(st, (ast.For, ast.If)):
                nb, c1 = self._whiles_to_fors(st.body)
                no, c2 = self._whiles_to_fors(st.orelse)
                if c1 or c2:
                    st2 = ast.For(target=st.target, iter=st.iter, body=nb, orelse=no, type_comment=None) if isinstance(st, ast.For) else ast.If(test=st.test, body=nb, orelse=no)
                    st = ast.copy_location(st2, st)
                    ast.fix_missing_locations(st)
                    changed = True
            out.append(st)
        return out, changed

    def loop(self, s: ast.For, env, conds):
        if s.orelse:
            raise Unsupported("for-else")
        wb, wch = self._whiles_to_fors(s.body)
        if wch:
            s = ast.copy_location(ast.For(target=s.target, iter=s.iter, body=wb, orelse=[], type_comment=None), s)
            ast.fix_missing_locations(s)
        nb = self._guards_to_ifs(s.body)
        if len(nb) != len(s.body) or any(a is not b for a, b in zip(nb, s.body)):
            s2 = ast.copy_location(ast.For(target=s.target, iter=s.iter, body=nb or [ast.copy_location(ast.Pass(), s)], orelse=[], type_comment=None), s)
            ast.fix_missing_locations(s2)
            s = s2
        for n in ast.walk(s):
            if isinstance(n, (ast.Break, ast.Continue, ast.Return, ast.While, ast.Try, ast.With, ast.Raise)):
                raise Unsupported(f"{type(n).__name__} inside a scan loop")
        comp = self.as_comp(s.iter, env)
        claimed = {k for fr in self.loop_stack for k in fr["accs"]}
        accs = self._scan_accs(s, env, claimed)
        benv = dict(env)
        for k, a in accs.items():
            benv[k] = {"counter": ("ctr", k, 0), "list": ("accl", k, 0), "dict": ("accd", k, 0)}[a["kind"]]
        tnames = {n.id for n in ast.walk(s.target) if isinstance(n, ast.Name)}
        for n in ast.walk(s):
            k = self._key(n) if isinstance(n, (ast.Name, ast.Attribute)) and isinstance(getattr(n, "ctx", None), ast.Store) else None
            if k and k not in accs and k not in claimed and k not in tnames and k in benv:
                benv[k] = ("top", f"`{k}` carried over from an earlier iteration")
        self.bind(s.target, comp.elt, benv)
        self.loop_stack.append({"gens": comp.gens, "conds": comp.conds + tuple(conds), "accs": accs})
        try:
            self.block(s.body, benv, ())
        finally:
            fr = self.loop_stack.pop()
        # propagate placeholders of accumulators owned by enclosing loops
        for k in claimed:
            if k in benv:
                env[k] = benv[k]
        # names assigned in the body that are not accumulators are per-iteration temporaries
        assigned = {self._key(n) for n in ast.walk(s) if isinstance(n, (ast.Name, ast.Attribute)) and isinstance(getattr(n, "ctx", None), ast.Store) and self._key(n)}
        for k in assigned:
            if k not in accs and k not in claimed:
                env[k] = ("top", f"`{k}` assigned in a loop")
        if not accs:
            return
        self._finish(accs, env)

    def _finish(self, accs, env):
        """Resolve the placeholders (counter values, sizes of the containers being built) and bind the accumulators' final values."""
        for k, a in accs.items():
            if a["site"] is None:
                raise Unsupported(f"the update of `{k}` was not reached")

        def placeholders(t):
            return {st for st in subterms(t) if isinstance(st, tuple) and st and st[0] in ("ctr", "acclen", "accl", "accd")}

        for a in accs.values():
            a["site"] = self._apply_splits(*a["site"])
            for fld in ("key", "elt"):
                if fld in a:
                    a[fld] = self._apply_splits((), (a[fld],))[1][0] if not self.splits else subst(a[fld], {v: ("bin", "+", ("bin", "*", sg[0], sg[2]), sg[1]) for v, sg in self.splits.items()})
        for k, a in accs.items():
            for t in list(a["site"][1]) + [a.get("key", ("const", 0)), a.get("elt", ("const", 0))]:
                if any(isinstance(st, tuple) and st and st[0] in ("top", "undef") for st in subterms(t)):
                    raise Unsupported(f"`{k}` depends on a value the algebra does not follow")
        resolved: dict = {}
        pending = dict(accs)
        for _ in range(len(accs) + 2):
            for k, a in list(pending.items()):
                gens, cs = a["site"]
                cs = tuple(subst(c, resolved) for c in cs)
                if any(placeholders(c) for c in cs):
                    continue
                cs = tuple(self.res(c) for c in cs)
                a["site"] = (gens, cs)
                pos = self._noted(self.pc(gens, cs))
                init = a["init"] if a["kind"] == "counter" else ("const", 0)
                for j in (0, 1):
                    resolved[("ctr", k, j)] = ("bin", "+", ("bin", "+", init, pos), ("const", j))
                    resolved[("acclen", k, j)] = ("bin", "+", pos, ("const", j))
                del pending[k]
        if pending:
            raise Unsupported("accumulators depend on each other cyclically: " + ", ".join(pending))
        for k, a in accs.items():
            gens, cs = a["site"]
            if a["kind"] == "counter":
                env[k] = ("bin", "+", a["init"], self._noted(self.cnt(gens, cs)))
                continue
            elt = self.res(subst(a["elt"], resolved))
            if placeholders(elt):
                raise Unsupported(f"element of `{k}` refers to a container under construction")
            o = self.obj(a["init"])
            if a["kind"] == "dict":
                key = self.res(subst(a["key"], resolved))
                pk, pp = self.poly(key), self.poly(self.pc(gens, cs))
                if pk is None or pp is None:
                    raise Unsupported(f"key of `{k}` is not arithmetic: {show(key)[:60]}")
                if not (pk - pp).is_const() or (pk - pp).const_value().denominator != 1:
                    a["bad_key"] = key
                    raise Mismatch(f"key of `{k}`", "the ordinal of the recorded element (base + number of elements recorded before it)", show(key)[:80], a)
                o.base = int((pk - pp).const_value())
            o.comp = Comp(gens, cs, elt)
            env[k] = a["init"]

    # ------------------------------------------------------------------ normal form of a built sequence
    def normal(self, c: Comp) -> Comp:
        """Generators over `range(<size of a built sequence>)` become generators over that sequence (the loop variable is the position in it);
        lookups by position become the element."""
        for _ in range(6):
            changed = False
            for i, (v, lo, hi, step) in enumerate(c.gens):
                if step != 1:
                    continue
                size = self.poly(("bin", "-", hi, lo))
                if size is None:
                    continue
                for k, proto in enumerate(self.registry):
                    if size == Poly.sym(self.sym(("cnt", k))):
                        inst = self.instance(Comp(proto.gens, proto.conds, ("const", None)))
                        pos = self._noted(self.pc(inst.gens, inst.conds))
                        m = {v: ("bin", "+", pos, lo)}
                        gens = c.gens[:i] + inst.gens + c.gens[i + 1:]
                        conds = inst.conds + tuple(subst(x, m) for x in c.conds)
                        c = Comp(tuple((g[0], subst(g[1], m), subst(g[2], m), g[3]) for g in gens), conds, subst(c.elt, m))
                        changed = True
                        break
                if changed:
                    break
                # a range whose size is the product of two registered spaces is their product, in order: v = lo + pos(a) * size(B) + pos(b); of the two
                # orders the one under which the lookups by position resolve is taken (both are changes of variable, neither can make a wrong form right)
                pairs_ = [(ka, kb) for ka in range(len(self.registry)) for kb in range(len(self.registry))
                          if size == Poly.sym(self.sym(("cnt", ka))) * Poly.sym(self.sym(("cnt", kb)))]
                best = None
                for ka, kb in pairs_[:4]:
                    ia = self.instance(Comp(self.registry[ka].gens, self.registry[ka].conds, ("const", None)))
                    ib = self.instance(Comp(self.registry[kb].gens, self.registry[kb].conds, ("const", None)))
                    pos = self._noted(self.pc(ia.gens + ib.gens, ia.conds + ib.conds))
                    m = {v: ("bin", "+", pos, lo)}
                    gens = c.gens[:i] + ia.gens + ib.gens + c.gens[i + 1:]
                    conds = ia.conds + ib.conds + tuple(subst(x, m) for x in c.conds)
                    cand = Comp(tuple((g[0], subst(g[1], m), subst(g[2], m), g[3]) for g in gens), conds, subst(c.elt, m))
                    left = [st for st in subterms(self.res(cand.elt)) if isinstance(st, tuple) and st and st[0] == "idx" and self.obj(st[1]) is not None]
                    if best is None or not left:
                        best = cand
                    if not left:
                        break
                if best is not None:
                    c = best
                    changed = True
                    break
            if not changed:
                break
        return Comp(c.gens, tuple(self.res(x) for x in c.conds), self.res(c.elt))


class Mismatch(Exception):
    """The code is in the fragment, and what it builds is definitely not the reference."""

    def __init__(self, what, expected, found, extra=None):
        super().__init__(what)
        self.what, self.expected, self.found, self.extra = what, expected, found, extra
