"""
Front-end normalisation: a local that is bound once to an instance field holding a *bytearray* and is then used in its place
(`buf = self._buffer; buf += data; len(buf)`) is that field, as long as the field is not rebound while the local is in use:
`+=` on a bytearray extends the object in place, so the local and the field keep naming the same object.  The term evaluator
has value semantics for locals (no heap), so the alias is removed before evaluation: every later use of the local becomes a use
of the field.  (`VERIF_NO_ALIASES=1` switches the rewrite off.)

Conditions, all syntactic and checked per class:
  F is a buffer field     every plain store `self.F = v` in the class has v = bytearray(...), a slice of self.F, or a slice of a local
                          that is itself an accepted alias of self.F; at least one such store exists
  X is an alias of F in m `X = self.F` is the only binding of X in method m (augmented `X += e` apart) and every use of X lies in the
                          statements that follow it in its own block
  F is not rebound while X is in use
                          no statement of m that rebinds F (a plain store, or a call of a method of the class that rebinds F,
                          transitively) is followed by a use of X, or shares a loop with a use of X; the value of a rebinding store may
                          use X (it is evaluated before the store)
Anything else is left as it is (the evaluator then sees an ordinary local).
"""
from __future__ import annotations

import ast
import os


def _self_attr(node, selfname):
    return node.attr if isinstance(node, ast.Attribute) and isinstance(node.value, ast.Name) and node.value.id == selfname else None


def _methods(cls: ast.ClassDef):
    return [n for n in cls.body if isinstance(n, ast.FunctionDef) and n.args.args and not any(isinstance(d, ast.Name) and d.id == "staticmethod" for d in n.decorator_list)]


def _walk_no_nested(fn):
    stack = list(fn.body)
    while stack:
        n = stack.pop()
        yield n
        for c in ast.iter_child_nodes(n):
            if not isinstance(c, (ast.FunctionDef, ast.AsyncFunctionDef, ast.Lambda, ast.ClassDef)):
                stack.append(c)


def _plain_stores(fn, selfname):
    """[(field, Assign statement)] for `self.F = v` (single target or one of several)."""
    out = []
    for n in _walk_no_nested(fn):
        if isinstance(n, ast.Assign):
            for t in n.targets:
                for tt in (t.elts if isinstance(t, (ast.Tuple, ast.List)) else [t]):
                    f = _self_attr(tt, selfname)
                    if f:
                        out.append((f, n, tt is t and len(n.targets) == 1))
        elif isinstance(n, ast.AnnAssign) and n.value is not None:
            f = _self_attr(n.target, selfname)
            if f:
                out.append((f, n, True))
        elif isinstance(n, (ast.For, ast.With, ast.NamedExpr, ast.Delete)):
            for x in ast.walk(n.target if isinstance(n, (ast.For, ast.NamedExpr)) else n):
                f = _self_attr(x, selfname) if isinstance(getattr(x, "ctx", None), (ast.Store, ast.Del)) else None
                if f:
                    out.append((f, n, False))
    return out


def _alias_candidates(fn, selfname):
    """{local: (field, binding statement)} for `X = self.F` as a top-level statement, the only binding of X (augmented += apart)."""
    out = {}
    params = {a.arg for a in fn.args.args + fn.args.kwonlyargs + fn.args.posonlyargs} | ({fn.args.vararg.arg} if fn.args.vararg else set()) | ({fn.args.kwarg.arg} if fn.args.kwarg else set())
    blocks = [fn.body]
    for n in _walk_no_nested(fn):
        for fld in ("body", "orelse", "finalbody"):
            lst = getattr(n, fld, None)
            if isinstance(lst, list) and lst and isinstance(lst[0], ast.stmt):
                blocks.append(lst)
    scope = {}
    for blk in blocks:
        for k, st in enumerate(blk):
            if isinstance(st, ast.Assign) and len(st.targets) == 1 and isinstance(st.targets[0], ast.Name) and _self_attr(st.value, selfname) and isinstance(st.value.ctx, ast.Load):
                x = st.targets[0].id
                if x in params or x in out:
                    out.pop(x, None)
                    params.add(x)  # bound twice: not a candidate
                    continue
                out[x] = (st.value.attr, st)
                scope[x] = {id(d) for later in blk[k + 1:] for d in ast.walk(later)}  # where the binding is known to have happened
    for x in list(out):
        # every use lies in the statements that follow the binding in its own block (for a top-level binding: the rest of the function)
        if any(isinstance(n, ast.Name) and n.id == x and n is not out[x][1].targets[0] and id(n) not in scope[x] for n in _walk_no_nested(fn)):
            del out[x]
    for x in list(out):
        fld, bind = out[x]
        ok = True
        for n in _walk_no_nested(fn):
            if isinstance(n, ast.Name) and n.id == x:
                par_aug = False
                if isinstance(n.ctx, (ast.Store, ast.Del)):
                    if n is bind.targets[0]:
                        continue
                    par_aug = any(isinstance(a, ast.AugAssign) and a.target is n and isinstance(a.op, ast.Add) for a in _walk_no_nested(fn))
                    if not par_aug:
                        ok = False
                elif (n.lineno, n.col_offset) < (bind.lineno, bind.col_offset):
                    ok = False
            elif isinstance(n, (ast.Global, ast.Nonlocal)) and x in n.names:
                ok = False
            elif isinstance(n, ast.ExceptHandler) and n.name == x:
                ok = False
        if not ok:
            del out[x]
    return out


def _uses(fn, x, bind):
    return [n for n in _walk_no_nested(fn) if isinstance(n, ast.Name) and n.id == x and n is not bind.targets[0]]


def _loops_of(fn):
    """{id(node): [enclosing loops]} for every node of the function."""
    out = {}

    def rec(n, loops):
        out[id(n)] = loops
        inner = loops + [n] if isinstance(n, (ast.For, ast.While)) else loops
        for c in ast.iter_child_nodes(n):
            if not isinstance(c, (ast.FunctionDef, ast.AsyncFunctionDef, ast.Lambda, ast.ClassDef)):
                rec(c, inner)

    for st in fn.body:
        rec(st, [])
    return out


def inline_buffer_aliases(tree: ast.Module) -> int:
    if os.environ.get("VERIF_NO_ALIASES") == "1":
        return 0
    done = 0
    for cls in [n for n in tree.body if isinstance(n, ast.ClassDef)]:
        ms = _methods(cls)
        if not ms:
            continue
        cands = {m.name: _alias_candidates(m, m.args.args[0].arg) for m in ms}
        stores = {m.name: _plain_stores(m, m.args.args[0].arg) for m in ms}
        fields = {f for ss in stores.values() for f, _, _ in ss}

        def buffer_value(v, m):
            selfname = m.args.args[0].arg
            if isinstance(v, ast.Call) and isinstance(v.func, ast.Name) and v.func.id == "bytearray":
                return True
            if isinstance(v, ast.Subscript) and isinstance(v.slice, ast.Slice):
                b = v.value
                if _self_attr(b, selfname) is not None:
                    return _self_attr(b, selfname)
                if isinstance(b, ast.Name) and b.id in cands[m.name]:
                    return cands[m.name][b.id][0]
            return False

        buffers = set()
        for f in fields:
            ok, n_ = True, 0
            for m in ms:
                for f2, st, simple in stores[m.name]:
                    if f2 != f:
                        continue
                    n_ += 1
                    val = getattr(st, "value", None)
                    r = buffer_value(val, m) if (simple and val is not None) else False
                    if not (r is True or r == f):
                        ok = False
            if ok and n_:
                buffers.add(f)
        if not buffers:
            continue
        # methods that rebind a buffer field, transitively through calls on self
        rebinds = {m.name: {f for f, _, _ in stores[m.name] if f in buffers} for m in ms}
        calls = {m.name: {c.func.attr for c in _walk_no_nested(m) if isinstance(c, ast.Call) and _self_attr(c.func, m.args.args[0].arg)} for m in ms}
        changed = True
        while changed:
            changed = False
            for m in ms:
                for g in calls[m.name]:
                    extra = rebinds.get(g, set()) - rebinds[m.name]
                    if extra:
                        rebinds[m.name] |= extra
                        changed = True
        for m in ms:
            selfname = m.args.args[0].arg
            loops = _loops_of(m)
            for x, (f, bind) in cands[m.name].items():
                if f not in buffers:
                    continue
                uses = _uses(m, x, bind)
                if not uses:
                    continue
                # statements that rebind F: direct stores, and calls of rebinding methods
                danger = [(st, True) for f2, st, _ in stores[m.name] if f2 == f]
                for c in _walk_no_nested(m):
                    if isinstance(c, ast.Call) and _self_attr(c.func, selfname) and f in rebinds.get(c.func.attr, set()):
                        danger.append((c, False))
                ok = True
                for d, direct in danger:
                    dend = (getattr(d, "end_lineno", d.lineno), getattr(d, "end_col_offset", 0))
                    inside = {id(n) for n in ast.walk(d.value)} if direct and getattr(d, "value", None) is not None else set()
                    for u in uses:
                        if id(u) in inside:
                            if loops.get(id(d)):
                                ok = False  # in a loop the next iteration would use the alias after the rebinding
                            continue
                        if (u.lineno, u.col_offset) > dend and not direct:
                            ok = False
                        if (u.lineno, u.col_offset) > (d.lineno, d.col_offset) and direct:
                            ok = False
                        if set(map(id, loops.get(id(d), []))) & set(map(id, loops.get(id(u), []))):
                            ok = False
                if not ok:
                    continue

                class _R(ast.NodeTransformer):
                    def visit_FunctionDef(self, node):  # noqa: N802
                        return node if node is not m else self.generic_visit(node)

                    def visit_Lambda(self, node):  # noqa: N802
                        return node

                    def visit_Name(self, node):  # noqa: N802
                        if node.id == x and node is not bind.targets[0]:
                            return ast.copy_location(ast.Attribute(value=ast.copy_location(ast.Name(id=selfname, ctx=ast.Load()), node), attr=f, ctx=type(node.ctx)()), node)
                        return node

                _R().visit(m)
                ast.fix_missing_locations(m)
                done += 1
    return done
