"""
Variants for the both-ways self-test: (id, props, expect fire|silent, edits[(file, old, new)], what).
Must-fire variants are behaviour-breaking edits (most survive the repository's 40 tests);
benign variants are behaviour-preserving rewrites that must stay silent.
"""

V = []


def fire(id, props, file, old, new, what="", rules=None):
    V.append({"id": id, "props": props if isinstance(props, list) else [props], "expect": "fire",
              "edits": [(file, old, new)], "what": what, "rules": rules or {}})


def fire_multi(id, props, edits, what="", rules=None):
    V.append({"id": id, "props": props if isinstance(props, list) else [props], "expect": "fire", "edits": edits, "what": what, "rules": rules or {}})


def silent(id, props, edits, what=""):
    if edits and isinstance(edits[0], str):
        edits = [tuple(edits)]
    V.append({"id": id, "props": props if isinstance(props, list) else [props], "expect": "silent", "edits": edits, "what": what})


MSG, RDR, HLP, SOCK = "rtcmmessage.py", "rtcmreader.py", "rtcmhelpers.py", "socketwrapper.py"
CORE, GET, MSM, IGS, TAB = "rtcmtypes_core.py", "rtcmtypes_get.py", "rtcmtypes_get_msm.py", "rtcmtypes_get_igs.py", "rtcmtables.py"

# ----------------------------------------------------------------------------- C10
fire("c10-set-literal", ["C10"], MSM, '            "DF420": "Half-cycle ambiguity indicator",\n        },\n    ),\n}\n\nMSM_SIG_3',
     '            "DF420",\n            "Half-cycle ambiguity indicator",\n        },\n    ),\n}\n\nMSM_SIG_3', "original defect F-C10a re-introduced")
fire("c10-igm01-transposed", ["C10"], IGS, '            "IDF015": "Delta Orbit Cross-Track",\n            "IDF016": "Dot Orbit Delta Radial",\n            "IDF017": "Dot Orbit Delta Along-Track",\n            "IDF018": "Dot Orbit Delta Cross-Track",\n        },\n    ),\n}\nIGM02',
     '            "IDF016": "Delta Orbit Cross-Track",\n            "IDF015": "Dot Orbit Delta Radial",\n            "IDF017": "Dot Orbit Delta Along-Track",\n            "IDF018": "Dot Orbit Delta Cross-Track",\n        },\n    ),\n}\nIGM02', "original defect F-C10b re-introduced")
fire("c10-width-df524", ["C10"], CORE, '"DF365": (INT, 22,', '"DF365": (INT, 21,', "width of a data field changed")
fire("c10-counter-plus-dropped", ["C10"], GET, '"DF379+1",  # +1 signifies 1 nested group index must be added\n                    {\n                        "DF380"', '"DF379",  # +1 signifies 1 nested group index must be added\n                    {\n                        "DF380"', "nested counter referenced without its index suffix")
fire("c10-1060-fields-swapped", ["C10"], GET, '"DF376": "Delta Clock C0",\n                "DF377": "Delta Clock C1",\n                "DF378": "Delta Clock C2",\n            },\n        ),\n    },\n    "1061"',
     '"DF377": "Delta Clock C0",\n                "DF376": "Delta Clock C1",\n                "DF378": "Delta Clock C2",\n            },\n        ),\n    },\n    "1061"', "two fields of different width swapped in 1060 (length unchanged)")
fire("c10-key-outside-dispatch", ["C10", "C15"], IGS, '    "4076_021": {**IGM01},', '    "4077_021": {**IGM01},', "table key not reachable through the selector")
fire("c10-duplicate-key", ["C10"], GET, '        "DF003": "Reference Station ID",\n        "DF421"', '        "DF003": "Reference Station ID",\n        "DF003": "Reference Station ID again",\n        "DF421"', "duplicate key silently drops a field")
fire("c10-undefined-field", ["C10"], GET, '        "DF421": "GLONASS Code-Phase bias indicator",', '        "DF999": "GLONASS Code-Phase bias indicator",', "field name without descriptor")
fire("c10-counter-later", ["C10"], GET, '        "DF562": "Service CRS Name Counter",\n        "group-DF562": (\n            "DF562",', '        "DF562": "Service CRS Name Counter",\n        "group-DF562": (\n            "DF564",', "counter refers to a field decoded later")
silent("c10-descriptions-changed", ["C10", "C15"], [(GET, '"DF003": "Reference Station ID",\n    "DF004": "GPS Epoch Time (TOW)",', '"DF003": "Station",\n    "DF004": "Epoch",')], "description strings are not part of any property")
silent("c10-group-key-renamed", ["C10"], [(GET, '"group-DF562": (', '"grp562": (')], "group labels are free")
silent("c10-new-message-type", ["C10", "C15"], [(GET, 'RTCM_PAYLOADS_GET = {\n', 'RTCM_PAYLOADS_GET = {\n    "1999": {"DF002": "Message Number", "DF003": "Reference Station ID"},\n')], "a new message type is unconstrained by the pinned oracles")
silent("c10-msm-range-narrowed", ["C10", "C15"], [(MSG, 'if "1070" <= self.identity <= "1229":', 'if "1071" <= self.identity <= "1137":')], "equivalent: every table key still reaches its table")

# ----------------------------------------------------------------------------- C15
fire("c15-mid-shift", ["C15"], MSG, "mid = self._payload[0] << 4 | self._payload[1] >> 4", "mid = self._payload[0] << 4 | self._payload[1] >> 3")
fire("c15-subtype-mask", ["C15"], MSG, "subtype = (self._payload[1] & 0x1) << 7", "subtype = (self._payload[1] & 0x3) << 7")
fire("c15-subtype-format", ["C15"], MSG, '{subtype:03d}', '{subtype:02d}')
fire("c15-igs-const", ["C15"], MSG, "if mid == 4076 and len(self._payload) > 2:  # proprietary", "if mid == 4067 and len(self._payload) > 2:  # proprietary")
fire("c15-stub-raises", ["C15"], MSG, '        setattr(self, "DF002", self.identity)\n        self._unknown = True', '        setattr(self, "DF002", self.identity)\n        self._unknown = True\n        if len(self._payload) > 1000:\n            raise RTCMMessageError("unknown message too long")')
fire("c15-getdict-subscript", ["C15", "C10"], MSG, "return RTCM_PAYLOADS_GET.get(self.identity, None)", "return RTCM_PAYLOADS_GET[self.identity]", "unknown type raises KeyError")
fire("c15-msm-predicate-substring", ["C15"], MSG, 'return "MSM" in RTCM_MSGIDS[self.identity]', 'return "M" in RTCM_MSGIDS[self.identity]', "ismsm true for other messages")
silent("c15-identity-locals-renamed", ["C15"], [(MSG, "mid = self._payload[0] << 4 | self._payload[1] >> 4\n\n        if mid == 4076 and len(self._payload) > 2:  # proprietary IGS SSR message type\n            subtype = (self._payload[1] & 0x1) << 7 | self._payload[2] >> 1\n            mid = f\"{mid}_{subtype:03d}\"\n\n        return str(mid)",
        "msgno = (self._payload[0] << 4) + (self._payload[1] >> 4)\n        if msgno != 4076 or len(self._payload) < 3:\n            return str(msgno)\n        st = ((self._payload[1] & 1) << 7) + (self._payload[2] >> 1)\n        return f\"{msgno}_{st:03d}\"")], "equivalent rewrite of identity")

# ----------------------------------------------------------------------------- C19
_DD_NEW = '    while datafield not in RTCM_DATA_FIELDS and "_" in datafield:\n        datafield = datafield.rsplit("_", 1)[0]\n    (_, _, _, desc) = RTCM_DATA_FIELDS[datafield]'
fire("c19-datadesc-slice5", ["C19"], HLP, _DD_NEW, '    (_, _, _, desc) = RTCM_DATA_FIELDS[datafield[0:5]]', "original defect F-C19 re-introduced")
fire("c19-datadesc-split0", ["C19"], HLP, _DD_NEW, '    (_, _, _, desc) = RTCM_DATA_FIELDS[datafield.split("_")[0]]', "wrong description for DF001_7, KeyError for DF422_1")
fire("c19-datadesc-slice6", ["C19"], HLP, _DD_NEW, '    (_, _, _, desc) = RTCM_DATA_FIELDS[datafield[0:6]]')
fire("c19-datadesc-wrong-component", ["C19"], HLP, "    (_, _, _, desc) = RTCM_DATA_FIELDS[datafield]", "    (_, _, desc, _) = RTCM_DATA_FIELDS[datafield]")
fire("c19-att2name-slice", ["C19"], HLP, '    return att.split("_")[0]', "    return att[0:5]", "att2name by slicing breaks IDF names")
fire("c19-att2idx-second-only", ["C19"], HLP, "            return tuple(int(att[i]) for i in range(1, ln))", "            return int(att[1])", "nested indices collapse to the first")
fire("c19-att2idx-from-2", ["C19"], HLP, "for i in range(1, ln))", "for i in range(2, ln))")
silent("c19-att2name-partition", ["C19"], [(HLP, '    return att.split("_")[0]', '    return att.partition("_")[0]')], "equivalent")
silent("c19-datadesc-split-loop", ["C19"], [(HLP, _DD_NEW, '    parts = datafield.split("_")\n    while "_".join(parts) not in RTCM_DATA_FIELDS and len(parts) > 1:\n        parts.pop()\n    (_, _, _, desc) = RTCM_DATA_FIELDS["_".join(parts)]')], "equivalent rewrite")

# ----------------------------------------------------------------------------- C18
fire("c18-guard-reserved", ["C18"], HLP, '    if not msg.ismsm or not hasattr(msg, "NSat"):', '    if not msg.ismsm:', "original defect F-C18 re-introduced")
fire("c18-sat-list-shortened", ["C18"], HLP, '["PRN", "DF397", "DF398", "DF399", "DF419", "ExtSatInfo"]', '["PRN", "DF397", "DF398", "DF399", "ExtSatInfo"]', "GLONASS channel number silently dropped from MSM5/7 arrays")
fire("c18-cell-list-shortened", ["C18"], HLP, '            "DF408",\n            "DF420",', '            "DF408",', "half-cycle indicator dropped")
fire("c18-epoch-field", ["C18"], CORE, '"111": ("QZSS", "DF428"),', '"111": ("QZSS", "DF427"),', "QZSS epoch looked up under the BeiDou field")
fire("c18-epoch-station", ["C18"], CORE, '"109": ("GALILEO", "DF248"),', '"109": ("GALILEO", "DF003"),', "epoch = station id")
fire("c18-suffix-3digits", ["C18"], HLP, 'cells[attr] = getattr(msg, f"{attr}_{i:02d}")', 'cells[attr] = getattr(msg, f"{attr}_{i:03d}")')
fire("c18-layer-count", ["C18"], HLP, "for lyr in range(msg.IDF035 + 1):", "for lyr in range(msg.IDF035):", "last ionospheric layer dropped")
fire("c18-coeff-order", ["C18"], CORE, '    0: ("IDF039", "Cosine Coefficients"),\n    1: ("IDF040", "Sine Coefficients"),', '    0: ("IDF040", "Cosine Coefficients"),\n    1: ("IDF039", "Sine Coefficients"),')
fire("c18-broad-except", ["C18"], HLP, "                except AttributeError:\n                    eof = True", "                except Exception:\n                    eof = True")
fire("c18-coeff-index-base", ["C18"], HLP, 'getattr(msg, f"{field}_{lyr+1:02d}_{i+1:02d}")', 'getattr(msg, f"{field}_{lyr+1:02d}_{i:02d}")')
fire("c18-sat-range-from-0", ["C18"], HLP, "for i in range(1, msg.NSat + 1):", "for i in range(0, msg.NSat):")
silent("c18-guard-identity-check", ["C18"], [(HLP, '    if not msg.ismsm or not hasattr(msg, "NSat"):', '    if not (msg.ismsm and hasattr(msg, "NSat") and hasattr(msg, "NCell")):')], "equivalent stronger guard")
silent("c18-extra-probe-name", ["C18"], [(HLP, '["PRN", "DF397", "DF398", "DF399", "DF419", "ExtSatInfo"]', '["PRN", "DF397", "DF398", "DF399", "DF419", "ExtSatInfo", "DF999"]')], "extra probed name is harmless (hasattr-guarded)")

# ----------------------------------------------------------------------------- C09
fire("c09-default-shape", ["C09"], MSG, "sgc = sigmap.get(idx, (NA, NA))", "sgc = sigmap.get(idx, NA)", "original defect F-C09 re-introduced")
fire("c09-sat-range-64", ["C09"], MSG, "for idx in range(65):", "for idx in range(64):", "satellite ID 64 never reported")
fire("c09-sat-pos-63", ["C09"], MSG, '>> (64 - idx) & 1', '>> (63 - idx) & 1', "PRNs shifted by one")
fire("c09-sig-range-32", ["C09"], MSG, "for idx in range(33):", "for idx in range(32):")
fire("c09-cell-loops-swapped", ["C09"], MSG, "        for sat in range(nsat):\n            for sig in range(nsig):", "        for sig in range(nsig):\n            for sat in range(nsat):", "cells scanned signal-major")
fire("c09-sat-plus1-dropped", ["C09"], MSG, "(self._satmap[sat + 1], sigs[sig])", "(self._satmap[sat], sigs[sig])")
fire("c09-cell-pos", ["C09"], MSG, ">> (ncells - idx) & 1", ">> (ncells - idx - 1) & 1")
fire("c09-rinex-code-altered", ["C09"], TAB, '    10: ("L2", "2W"),', '    10: ("L2", "2V"),')
fire("c09-navic-prn-range", ["C09"], TAB, 'IRNSS_PRN_MAP = {i: f"{i:03d}" for i in range(1, 15)}', 'IRNSS_PRN_MAP = {i: f"{i:03d}" for i in range(1, 14)}', "NavIC PRN 14 reported N/A")
fire("c09-sbas-offset", ["C09"], TAB, 'f"{i+119:03d}"', 'f"{i+120:03d}"')
fire("c09-nsig-from-df394", ["C09"], MSG, "            elif anam == \"DF395\":  # num of signals in MSM message\n                setattr(self, NSIG, nbits)", "            elif anam == \"DF395\":  # num of signals in MSM message\n                setattr(self, NSIG, nbits + 0 * offset if nbits else 1)")
fire("c09-cellsig-component", ["C09"], MSG, "val = self._cellmap[index[0]][1]", "val = self._cellmap[index[0]][0]", "cell signal label shows the PRN")
fire("c09-prefix-slice", ["C09"], MSG, "PRNSIGMAP[str(self.identity)[0:3]]", "PRNSIGMAP[str(self.identity)[1:4]]")
silent("c09-band-label-changed", ["C09"], [(TAB, '    2: ("G1", "1C"),', '    2: ("G1a", "1C"),')], "band label (position 0) is not pinned")
silent("c09-scan-locals-renamed", ["C09"], [(MSG, "        nsat = 0\n        for idx in range(65):\n            if getattr(self, \"DF394\") >> (64 - idx) & 1:\n                nsat += 1\n                self._satmap[nsat] = prnmap.get(idx, NA)",
   "        count = 0\n        for satid in range(1, 65):\n            if (self.DF394 >> (64 - satid)) & 1 != 0:\n                count = count + 1\n                self._satmap[count] = prnmap.get(satid, NA)\n        nsat = count")], "equivalent rewrite of the satellite scan")

# ----------------------------------------------------------------------------- C08
fire("c08-poly-bit", ["C08"], HLP, "poly = 0x1864CFB", "poly = 0x1864CF9", "generator constant altered")
fire("c08-poly-bit2", ["C08"], HLP, "poly = 0x1864CFB", "poly = 0x1864CFA")
fire("c08-range7", ["C08"], HLP, "for _ in range(8):", "for _ in range(7):")
fire("c08-shift15", ["C08"], HLP, "crc ^= octet << 16", "crc ^= octet << 15")
fire("c08-topbit", ["C08"], HLP, "if crc & 0x1000000:", "if crc & 0x800000:")
silent("c08-final-mask-wide", ["C08"], [(HLP, "return crc & 0xFFFFFF", "return crc & 0x1FFFFFF")], "equivalent: the state is < 2^24 by the inductive invariant")
fire("c08-final-mask-narrow", ["C08"], HLP, "return crc & 0xFFFFFF", "return crc & 0x7FFFFF")
fire("c08-init", ["C08"], HLP, "    crc = 0\n    for octet in message:", "    crc = 0xFFFFFF\n    for octet in message:")
fire("c08-skip-last", ["C08"], HLP, "for octet in message:", "for octet in message[:-1]:")
fire("c08-gate-and", ["C08", "C01"], RDR, "            if calc_crc24q(message):", "            if calc_crc24q(message[:-1]) and calc_crc24q(message):", "CRC test weakened (survives the test-suite)")
fire("c08-gate-negated", ["C08", "C01"], RDR, "            if calc_crc24q(message):", "            if not calc_crc24q(message):")
fire("c08-gate-length-exempt", ["C08", "C01"], RDR, "        if validate & VALCKSUM:", "        if validate & VALCKSUM and len(message) < 1029:", "maximum-length frames skip validation")
fire("c08-gate-wrong-class", ["C08"], RDR, '                raise RTCMParseError(\n                    f"RTCM3 message invalid - failed CRC', '                raise RTCMStreamError(\n                    f"RTCM3 message invalid - failed CRC')
fire("c08-slice-includes-crc", ["C08", "C01"], RDR, "payload = message[3:-3]", "payload = message[3:-2]")
fire("c08-validate-bit", ["C08"], RDR, "        if validate & VALCKSUM:", "        if validate & 2:")
silent("c08-crc-style", ["C08", "C01"], [(HLP, "        crc ^= octet << 16\n        for _ in range(8):\n            crc <<= 1\n            if crc & 0x1000000:\n                crc ^= poly", "        crc = crc ^ (octet << 16)\n        for _bit in range(8):\n            crc = crc << 1\n            if (crc & 0x1000000) != 0:\n                crc = crc ^ poly")], "equivalent re-write")
silent("c08-gate-or", ["C08", "C01"], [(RDR, "        if validate & VALCKSUM:\n            if calc_crc24q(message):", "        if validate & VALCKSUM:\n            if calc_crc24q(message) != 0 or len(message) < 6:")], "stricter gate is still a gate")
silent("c08-gate-merged", ["C08", "C01"], [(RDR, "        if validate & VALCKSUM:\n            if calc_crc24q(message):\n                raise RTCMParseError(\n                    f\"RTCM3 message invalid - failed CRC: {message[-3:]}\"\n                )", "        if validate & VALCKSUM and calc_crc24q(message):\n            raise RTCMParseError(f\"RTCM3 message invalid - failed CRC: {message[-3:]}\")")], "equivalent")

# ----------------------------------------------------------------------------- C01
fire("c01-gate-mask-07", ["C01"], RDR, "(byte2[0] & ~0x03) == 0", "(byte2[0] & ~0x07) == 0", "gate admits a set reserved bit (survives the test-suite)")
fire("c01-gate-mask-01", ["C01"], RDR, "(byte2[0] & ~0x03) == 0", "(byte2[0] & ~0x01) == 0", "gate rejects lengths >= 512")
fire("c01-gate-no-reserved-check", ["C01"], RDR, 'if byte1 == b"\\xd3" and (byte2[0] & ~0x03) == 0:', 'if byte1 == b"\\xd3":')
fire("c01-size-shift7", ["C01"], RDR, "size = (hdr[1] << 8) | hdr3[0]", "size = (hdr[1] << 7) | hdr3[0]")
fire("c01-size-masked-8bit", ["C01"], RDR, "size = (hdr[1] << 8) | hdr3[0]", "size = hdr3[0]", "length >= 256 truncated")
fire("c01-trailer-2", ["C01"], RDR, "crc = self._read_bytes(3)", "crc = self._read_bytes(2)")
fire("c01-raw-drops-hdr3", ["C01"], RDR, "raw_data = hdr + hdr3 + payload + crc", "raw_data = hdr + payload + crc")
fire("c01-raw-order", ["C01"], RDR, "raw_data = hdr + hdr3 + payload + crc", "raw_data = hdr + hdr3 + crc + payload")
fire("c01-short-read-guard", ["C01"], RDR, "if 0 < len(data) < size:  # truncated stream", "if 0 < len(data) < size - 1:  # truncated stream", "a read one byte short is spliced into a frame (survives the test-suite)")
fire("c01-short-read-removed", ["C01"], RDR, "        if 0 < len(data) < size:  # truncated stream\n            raise RTCMStreamError(\n                \"Serial stream terminated unexpectedly. \"\n                f\"{size} bytes requested, {len(data)} bytes returned.\"\n            )\n", "")
fire("c01-read-returns-slice", ["C01"], RDR, "        return data\n\n    def _read_line", "        return data[:size]\n\n    def _read_line", "primitive no longer returns the stream's result unmodified")
fire("c01-slice-3-2", ["C01"], RDR, "payload = message[3:-3]", "payload = message[3:-2]")
fire("c01-seek-back", ["C01"], RDR, "        hdr3 = self._read_bytes(1)\n", "        hdr3 = self._read_bytes(1)\n        if hasattr(self._stream, \"seek\") and False:\n            self._stream.seek(-1, 1)\n")
fire("c01-return-ubx", ["C01"], RDR, "                    (raw_data, parsed_data) = self._parse_ubx(bytehdr)\n                    continue", "                    (raw_data, parsed_data) = self._parse_ubx(bytehdr)\n                    parsing = False\n                    continue", "UBX frame returned as if it were RTCM")
fire("c01-second-assembler-call", ["C01"], RDR, "                    raise RTCMParseError(f\"Unknown protocol header {bytehdr}.\")", "                    (raw_data, parsed_data) = self._parse_rtcm3(bytehdr)\n                    parsing = False", "frames attempted without the header test")
silent("c01-gate-style", ["C01"], [(RDR, 'if byte1 == b"\\xd3" and (byte2[0] & ~0x03) == 0:', 'if bytehdr[0] == 0xD3 and bytehdr[1] >> 2 == 0:')], "equivalent gate")
silent("c01-gate-lt4", ["C01"], [(RDR, "(byte2[0] & ~0x03) == 0", "byte2[0] < 4")], "equivalent gate")
silent("c01-read-bytes-renamed", ["C01", "C02", "C05"], [(RDR, "_read_bytes", "_take")], "private helper renamed") 
silent("c01-size-style", ["C01"], [(RDR, "size = (hdr[1] << 8) | hdr3[0]", 'size = int.from_bytes(hdr[1:2] + hdr3, "big")')], "equivalent size computation")

# ----------------------------------------------------------------------------- C02
fire("c02-eof-on-zero-request", ["C02"], RDR, "if len(data) == 0 and size > 0:  # EOF (a zero-length request is not EOF)", "if len(data) == 0:  # EOF", "original defect F-C02 re-introduced")
fire("c02-ubx-plus1", ["C02"], RDR, "byten = self._read_bytes(leni + 2)", "byten = self._read_bytes(leni + 1)", "UBX skip one byte short (survives the test-suite)")
fire("c02-ubx-big-endian", ["C02"], RDR, 'leni = int.from_bytes(lenb, "little", signed=False)', 'leni = int.from_bytes(lenb, "big", signed=False)')
fire("c02-ubx-len-offset", ["C02"], RDR, "lenb = byten[2:4]", "lenb = byten[1:3]")
fire("c02-ubx-hdr-3", ["C02"], RDR, "byten = self._read_bytes(4)", "byten = self._read_bytes(3)")
fire("c02-sync-set-minus", ["C02"], RDR, 'if byte1 not in (b"\\xb5", b"\\x24", b"\\xd3"):', 'if byte1 not in (b"\\xb5", b"\\xd3"):', "NMEA sentences become errors")
fire("c02-sync-set-plus", ["C02"], RDR, 'if byte1 not in (b"\\xb5", b"\\x24", b"\\xd3"):', 'if byte1 not in (b"\\xb5", b"\\x24", b"\\xd3", b"\\x00"):', "zero bytes are no longer inert noise")
fire("c02-noise-reads-two", ["C02"], RDR, '                if byte1 not in (b"\\xb5", b"\\x24", b"\\xd3"):\n                    continue', '                if byte1 not in (b"\\xb5", b"\\x24", b"\\xd3"):\n                    self._read_bytes(1)\n                    continue', "noise swallows the byte after it")
fire("c02-ubx-no-continue", ["C02"], RDR, "                    (raw_data, parsed_data) = self._parse_ubx(bytehdr)\n                    continue", "                    (raw_data, parsed_data) = self._parse_ubx(bytehdr)\n                    break")
fire("c02-handler-returns", ["C02"], RDR, "                if self._quitonerror:\n                    self._do_error(err)\n                continue", "                if self._quitonerror:\n                    self._do_error(err)\n                return (None, None)", "an error ends iteration")
fire("c02-next-or", ["C02"], RDR, "if raw_data is None and parsed_data is None:", "if raw_data is None or parsed_data is None:", "iteration stops at the first unparsed frame")
fire("c02-nmea-readbytes", ["C02"], RDR, "byten = self._read_line()  # NMEA protocol is CRLF-terminated", "byten = self._read_bytes(80)  # NMEA protocol is CRLF-terminated")
fire("c02-line-no-eof", ["C02"], RDR, "        if len(data) == 0:\n            raise EOFError()  # EOF\n", "")
fire("c02-size-guard-off-by-one", ["C02"], RDR, "if len(data) == 0 and size > 0:", "if len(data) == 0 and size >= 0:")
silent("c02-new-talker", ["C02"], [(CORE, '    b"$W",\n]', '    b"$W",\n    b"$Q",\n]')], "a new NMEA talker prefix is unconstrained")
silent("c02-skip-zero-read", ["C02", "C01"], [(RDR, "        payload = self._read_bytes(size)\n", '        payload = self._read_bytes(size) if size else b""\n'), (RDR, "if len(data) == 0 and size > 0:  # EOF (a zero-length request is not EOF)", "if len(data) == 0:  # EOF")], "alternative repair: the caller skips the zero-length read")

# ----------------------------------------------------------------------------- C05
fire("c05-parse-before-trailer", ["C05"], RDR, "        crc = self._read_bytes(3)\n        raw_data = hdr + hdr3 + payload + crc\n        if self._parsed:\n            parsed_data = self.parse(\n                raw_data,", "        raw_data = hdr + hdr3 + payload\n        if self._parsed:\n            parsed_data = self.parse(\n                raw_data + self._read_bytes(0),", "validation before the frame is consumed")
fire("c05-both-sinks", ["C05"], RDR, "            if self._errorhandler is None:\n                self._logger.error(err)\n            else:\n                self._errorhandler(err)", "            self._logger.error(err)\n            if self._errorhandler is not None:\n                self._errorhandler(err)", "log mode reports twice when a handler is set (survives the test-suite)")
fire("c05-quitonerror-negated", ["C05"], RDR, "                if self._quitonerror:\n                    self._do_error(err)", "                if not self._quitonerror:\n                    self._do_error(err)")
fire("c05-raise-mode-logs", ["C05"], RDR, "        if self._quitonerror == ERR_RAISE:\n            raise err from err\n        if self._quitonerror == ERR_LOG:", "        if self._quitonerror >= ERR_LOG:", "raise mode never raises")
fire("c05-handler-called-in-ignore", ["C05"], RDR, "                if self._quitonerror:\n                    self._do_error(err)\n                continue", "                if self._errorhandler is not None:\n                    self._errorhandler(err)\n                if self._quitonerror:\n                    self._do_error(err)\n                continue")
fire("c05-parseerror-not-caught", ["C05"], RDR, "                RTCMMessageError,\n                RTCMParseError,\n                RTCMStreamError,", "                RTCMMessageError,\n                RTCMStreamError,", "CRC failure escapes the loop in every mode")
fire("c05-raise-new-exception", ["C05"], RDR, "            raise err from err", "            raise RTCMStreamError(str(err)) from err", "raise mode raises a different class")
fire("c05-log-only-first", ["C05"], RDR, "                self._errorhandler(err)\n", "                self._errorhandler(err)\n                self._errorhandler = None\n", "handler dropped after the first error")
fire("c05-state-after-error", ["C05"], RDR, "                if self._quitonerror:\n                    self._do_error(err)\n                continue", "                self._parsed = False\n                if self._quitonerror:\n                    self._do_error(err)\n                continue", "an error changes the reader's behaviour for later frames")
silent("c05-dispatch-ge", ["C05"], [(RDR, "        if self._quitonerror == ERR_LOG:", "        if self._quitonerror >= ERR_LOG:")], "equivalent on the three modes (after the == ERR_RAISE test)")
silent("c05-dispatch-always-called", ["C05"], [(RDR, "                if self._quitonerror:\n                    self._do_error(err)", "                self._do_error(err)")], "equivalent: the dispatcher does nothing in ignore mode")

# ----------------------------------------------------------------------------- C17
fire("c17-slice-on-validate", ["C17"], RDR, "        payload = message[3:-3]\n", "        payload = message[3:-3] if validate & VALCKSUM else message[3:]\n", "payload slice depends on validate (survives the test-suite)")
fire("c17-trailer-read-on-validate", ["C17"], RDR, "        crc = self._read_bytes(3)\n", "        crc = self._read_bytes(3) if self._validate else b\"\"\n", "bytes taken depend on validate")
fire("c17-trailer-read-on-parsed", ["C17"], RDR, "        crc = self._read_bytes(3)\n", "        crc = self._read_bytes(3) if self._parsed else self._read_bytes(2)\n")
fire("c17-validate-off-returns-none", ["C17"], RDR, "        payload = message[3:-3]\n        return RTCMMessage(payload=payload, labelmsm=labelmsm)", "        payload = message[3:-3]\n        if not validate:\n            labelmsm = 2\n        return RTCMMessage(payload=payload, labelmsm=labelmsm)", "validate changes the label option")
fire("c17-parsed-off-skips-noise-check", ["C17"], RDR, '                if byte1 not in (b"\\xb5", b"\\x24", b"\\xd3"):', '                if self._parsed and byte1 not in (b"\\xb5", b"\\x24", b"\\xd3"):', "parsed option changes framing")
fire("c17-parsed-raw-differs", ["C17"], RDR, "        raw_data = hdr + hdr3 + payload + crc\n", "        raw_data = hdr + hdr3 + payload + crc if self._parsed else hdr + hdr3 + payload\n")
fire("c17-ctor-reads-stream", ["C17"], RDR, "        self._logger = getLogger(__name__)\n", "        self._logger = getLogger(__name__)\n        if hasattr(datastream, \"peek\"):\n            datastream.peek(1)\n", "constructor touches the stream")
fire("c17-validate-not-stored", ["C17"], RDR, "        self._validate = validate\n", "        self._validate = VALCKSUM\n", "validate option ignored by the reader")
fire("c17-validate-not-forwarded", ["C17", "C01"], RDR, "                validate=self._validate,\n", "", "reader always validates")
silent("c17-parse-positional", ["C17", "C01", "C05"], [(RDR, "            parsed_data = self.parse(\n                raw_data,\n                validate=self._validate,\n                labelmsm=self._labelmsm,\n            )", "            parsed_data = self.parse(raw_data, self._validate, self._labelmsm)")], "positional forwarding is equivalent")

# ----------------------------------------------------------------------------- C07
fire("c07-parts-swapped", ["C07"], MSG, "message = RTCM_HDR + size + self._payload", "message = RTCM_HDR + self._payload + size")
fire("c07-len-3-bytes", ["C07"], HLP, 'return len(payload).to_bytes(2, "big")', 'return len(payload).to_bytes(3, "big")')
fire("c07-len-little", ["C07"], HLP, 'return len(payload).to_bytes(2, "big")', 'return len(payload).to_bytes(2, "little")')
fire("c07-crc-little", ["C07"], HLP, 'return calc_crc24q(message).to_bytes(3, "big")', 'return calc_crc24q(message).to_bytes(3, "little")')
fire("c07-crc-over-payload-only", ["C07"], MSG, "crc = crc2bytes(message)", "crc = crc2bytes(self._payload)")
fire("c07-repr-slice", ["C07"], MSG, 'return f"RTCMMessage(payload={self._payload})"', 'return f"RTCMMessage(payload={self._payload[:64]})"', "repr of long messages no longer round-trips (survives the test-suite)")
fire("c07-repr-wrong-class", ["C07"], MSG, 'return f"RTCMMessage(payload={self._payload})"', 'return f"RTCMessage(payload={self._payload})"')
fire("c07-repr-positional-hex", ["C07"], MSG, 'return f"RTCMMessage(payload={self._payload})"', 'return f"RTCMMessage(payload={self._payload.hex()})"')
fire("c07-hdr-const", ["C07"], CORE, 'RTCM_HDR = b"\\xd3"', 'RTCM_HDR = b"\\xd2"')
fire("c07-payload-copy-stripped", ["C07"], MSG, "        self._payload = payload\n", "        self._payload = payload.rstrip(b\"\\x00\") if payload else payload\n", "trailing zero bytes dropped from the stored payload")
fire("c07-getter-slice", ["C07"], MSG, "        return self._payload\n\n    @property\n    def ismsm", "        return self._payload[:1023]\n\n    @property\n    def ismsm")
fire("c07-serialize-unknown-branch", ["C07", "C15"], MSG, "        size = len2bytes(self._payload)\n", "        size = len2bytes(self._payload)\n        if self._unknown and len(self._payload) > 512:\n            size = len2bytes(self._payload[:512])\n", "stub messages serialise differently")
silent("c07-serialize-inline", ["C07"], [(MSG, "        size = len2bytes(self._payload)\n        message = RTCM_HDR + size + self._payload\n        crc = crc2bytes(message)\n        return message + crc", "        body = RTCM_HDR + len2bytes(self._payload) + self._payload\n        return body + crc2bytes(body)")], "equivalent")
silent("c07-repr-conv-r", ["C07"], [(MSG, 'return f"RTCMMessage(payload={self._payload})"', 'return f"RTCMMessage(payload={self._payload!r})"')], "equivalent for bytes")

# ----------------------------------------------------------------------------- C14
fire("c14-private-exempt", ["C14"], MSG, "        if self._immutable:\n            raise RTCMMessageError(", "        if self._immutable and not name.startswith(\"_\"):\n            raise RTCMMessageError(", "private names stay writable (survives the test-suite)")
fire("c14-flag-store-removed", ["C14"], MSG, "        self._immutable = True  # once initialised, object is immutable\n", "")
fire("c14-flag-before-attrs", ["C14"], MSG, "        self._do_attributes()\n\n        self._immutable = True  # once initialised, object is immutable\n", "        super().__setattr__(\"_immutable\", True)\n        self._do_attributes()\n")
fire("c14-raise-after-delegation", ["C14"], MSG, "        if self._immutable:\n            raise RTCMMessageError(\n                f\"Object is immutable. Updates to {name} not permitted after initialisation.\"\n            )\n\n        super().__setattr__(name, value)", "        super().__setattr__(name, value)\n        if self._immutable:\n            raise RTCMMessageError(\n                f\"Object is immutable. Updates to {name} not permitted after initialisation.\"\n            )")
fire("c14-wrong-exception", ["C14"], MSG, "        if self._immutable:\n            raise RTCMMessageError(", "        if self._immutable:\n            raise RTCMTypeError(")
fire("c14-new-names-allowed", ["C14"], MSG, "        if self._immutable:\n            raise RTCMMessageError(", "        if self._immutable and name in self.__dict__:\n            raise RTCMMessageError(", "fresh names can be added after construction")
fire("c14-bypass-in-getter", ["C14"], MSG, "        mid = self._payload[0] << 4 | self._payload[1] >> 4\n", "        mid = self._payload[0] << 4 | self._payload[1] >> 4\n        object.__setattr__(self, \"_lastid\", mid)\n")
fire("c14-dict-write", ["C14"], MSG, "        size = len2bytes(self._payload)\n", "        size = len2bytes(self._payload)\n        self.__dict__[\"_serialized\"] = True\n")
fire("c14-silent-ignore", ["C14"], MSG, "            raise RTCMMessageError(\n                f\"Object is immutable. Updates to {name} not permitted after initialisation.\"\n            )\n", "            return\n", "assignment silently ignored instead of raising")
fire("c14-payload-setter", ["C14"], MSG, "    @property\n    def ismsm(self) -> bool:", "    @payload.setter\n    def payload(self, value):\n        super().__setattr__(\"_payload\", value)\n\n    @property\n    def ismsm(self) -> bool:")
fire("c14-flag-conditional", ["C14"], MSG, "        self._immutable = True  # once initialised, object is immutable\n", "        if not self._unknown:\n            self._immutable = True  # once initialised, object is immutable\n", "unknown-type stubs stay mutable")
silent("c14-message-text", ["C14"], [(MSG, 'f"Object is immutable. Updates to {name} not permitted after initialisation."', 'f"Immutable object: cannot set {name}."')], "message text is free")
silent("c14-flag-renamed", ["C14"], [(MSG, "_immutable", "_frozen")], "flag renamed consistently")

# ----------------------------------------------------------------------------- C13
fire_multi("c13-index-default-arg", ["C13"], [(MSG, "    def _do_attributes(self):", "    def _do_attributes(self, index=[]):"), (MSG, "        index = []  # array of (nested) group indices\n", "")], "index stack shared across parses: a failed parse leaves its depth behind")
fire_multi("c13-class-level-satmap", ["C13"], [(MSG, '    """RTCM Message Class."""\n', '    """RTCM Message Class."""\n\n    _satmap = {}\n    _cellmap = {}\n'), (MSG, "        self._satmap = {}\n        nsat = 0", "        nsat = 0"), (MSG, "        self._satmap = None\n        self._cellmap = None\n", "")], "satellite map shared by all messages and threads")
fire("c13-pdict-pop", ["C13"], MSG, "            for anam in pdict:  # process each attribute in dict\n", "            pdict.pop(\"_scratch\", None)\n            for anam in pdict:  # process each attribute in dict\n", "definition table mutated during a parse")
fire("c13-module-cache", ["C13"], MSG, 'BOOL = "B"\n', 'BOOL = "B"\n_DEFCACHE = {}\n\n\ndef _remember(identity, pdict):\n    _DEFCACHE[identity] = pdict\n    return pdict\n', "module-level cache written from the parse path")
fire("c13-lru-cache", ["C13"], MSG, "    def _get_dict(self) -> dict:", "    @lru_cache(maxsize=32)\n    def _get_dict(self) -> dict:")
fire("c13-table-annotated", ["C13"], MSG, "        adef = pdict[anam]  # get attribute definition\n", "        adef = pdict[anam]  # get attribute definition\n        if isinstance(adef, tuple) and isinstance(adef[1], dict):\n            adef[1].setdefault(\"_visited\", \"\")\n", "group dict of the shared definition mutated")
fire("c13-prnmap-filled", ["C13"], MSG, "                self._satmap[nsat] = prnmap.get(idx, NA)", "                self._satmap[nsat] = prnmap.setdefault(idx, NA)", "lookup table grows as a side effect of parsing")
fire("c13-reader-remembers", ["C13", "C05"], RDR, "        raw_data = hdr + hdr3 + payload + crc\n", "        raw_data = hdr + hdr3 + payload + crc\n        self._last = raw_data\n", "reader keeps per-frame state")
fire("c13-global-counter", ["C13"], MSG, "        offset = 0  # payload offset in bits\n", "        global BOOL\n        BOOL = \"B\"\n        offset = 0  # payload offset in bits\n")
fire("c13-msgids-write", ["C13"], MSG, "        except KeyError:\n            return False", "        except KeyError:\n            RTCM_MSGIDS[self.identity] = \"\"\n            return False", "unknown ids memoised into the message-id table")
silent("c13-local-copy-mutated", ["C13"], [(MSG, "        adef = pdict[anam]  # get attribute definition\n", "        adef = pdict[anam]  # get attribute definition\n        scratch = dict(pdict)\n        scratch[\"_x\"] = 1\n")], "mutating a fresh copy is harmless")
silent("c13-instance-cache", ["C13"], [(MSG, "        self._cellmap = None\n", "        self._cellmap = None\n        self._seen = []\n        self._seen.append(1)\n")], "per-instance state is not shared")

# ----------------------------------------------------------------------------- C11
fire("c11-truncate-plus1", ["C11"], SOCK, "self._buffer = self._buffer[num:]", "self._buffer = self._buffer[num + 1 :]", "one byte lost per read")
fire("c11-buffer-cleared-on-timeout", ["C11"], SOCK, "        except (OSError, TimeoutError):\n            return False", "        except (OSError, TimeoutError):\n            self._buffer = bytearray()\n            return False", "a timeout loses buffered data (survives the test-suite)")
fire("c11-assign-not-append", ["C11"], SOCK, "                self._buffer += data", "                self._buffer = bytearray(data)", "refill overwrites unread bytes")
fire("c11-partial-returned-on-close", ["C11"], SOCK, "            if not self._recv():\n                return b\"\"", "            if not self._recv():\n                return bytes(self._buffer)", "buffer returned without being consumed: duplicated on the next read")
fire("c11-return-more", ["C11"], SOCK, "        data = self._buffer[:num]\n", "        data = self._buffer[: max(num, 2)]\n", "read(1) may return 2 bytes")
fire("c11-loop-le", ["C11"], SOCK, "while len(self._buffer) < num:", "while len(self._buffer) < num - 1:", "short reads without close/timeout")
fire("c11-store-before-empty-check", ["C11"], SOCK, "            if len(data) == 0:\n                return False\n            if self._encoding & ENCODE_CHUNKED:", "            self._partial = b\"\"\n            if len(data) == 0:\n                return False\n            if self._encoding & ENCODE_CHUNKED:", "partial chunk dropped at every receive")
fire("c11-readline-drops-byte", ["C11"], SOCK, "            if len(data) == 1:\n                line += data\n                if line[-2:]", "            if len(data) == 1:\n                if data != b\"\\r\":\n                    line += data\n                if line[-2:]", "CR bytes dropped from lines")
fire("c11-readline-lf-only", ["C11"], SOCK, '                if line[-2:] == b"\\r\\n":\n                    break\n            else:', '                if line[-1:] == b"\\r":\n                    break\n            else:', "line ends before the LF, which is left in the buffer")
fire("c11-reader-no-wrap", ["C11"], RDR, "            self._stream = SocketWrapper(datastream, encoding=encoding, bufsize=bufsize)", "            self._stream = SocketWrapper(datastream, encoding=encoding)", "bufsize not forwarded")
fire("c11-prepend", ["C11"], SOCK, "                self._buffer += data", "                self._buffer = bytearray(data) + self._buffer", "segments reordered")
silent("c11-del-idiom", ["C11"], [(SOCK, "        data = self._buffer[:num]\n        self._buffer = self._buffer[num:]\n        return bytes(data)", "        data = bytes(self._buffer[:num])\n        del self._buffer[:num]\n        return data")], "equivalent truncation idiom")
silent("c11-loop-style", ["C11"], [(SOCK, "            if not self._recv():\n                return b\"\"", "            ok = self._recv()\n            if not ok:\n                return b\"\"")], "equivalent")

# ----------------------------------------------------------------------------- C12
_C12_FIX = '                term = instream.readline()\n                if len(chunk) != chunk_length or term[-2:] != b"\\r\\n":\n                    # premature end of chunk bytes or of chunk terminator\n                    partial = length_bytes + chunk + term\n                    break\n'
fire_multi("c12-terminator-unchecked", ["C12"], [(SOCK, _C12_FIX, '                if len(chunk) != chunk_length:\n                    partial = length_bytes + chunk\n                    break\n'), (SOCK, "                chunks += chunk\n\n            if chunk_length == 0:", "                chunks += chunk\n\n            instream.readline()\n            if chunk_length == 0:")], "original defect F-C12 re-introduced")
fire("c12-partial-drops-length", ["C12"], SOCK, "partial = length_bytes + chunk + term", "partial = chunk + term", "carried bytes lose the size line")
fire("c12-partial-drops-term", ["C12"], SOCK, "partial = length_bytes + chunk + term", "partial = length_bytes + chunk", "partial terminator bytes lost")
fire("c12-prepend-order", ["C12"], SOCK, "data = self._partial + data", "data = data + self._partial")
fire("c12-base10", ["C12"], SOCK, "chunk_length = int(length_bytes.strip(), 16)", "chunk_length = int(length_bytes.strip(), 10)")
fire("c12-commit-before-check", ["C12"], SOCK, "                chunk = instream.read(chunk_length)\n                term = instream.readline()\n", "                chunk = instream.read(chunk_length)\n                chunks += chunk\n                term = instream.readline()\n", "data appended before its completeness is known: duplicated on the next receive")
fire("c12-length-check-only", ["C12"], SOCK, 'if len(chunk) != chunk_length or term[-2:] != b"\\r\\n":', "if len(chunk) != chunk_length:", "terminator read but not checked")
fire("c12-length-line-lf-only", ["C12"], SOCK, '            if length_bytes[-2:] != b"\\r\\n":\n                # premature end of length bytes', '            if length_bytes[-1:] != b"\\r":\n                # premature end of length bytes', "size line accepted when the LF has not arrived")
fire("c12-partial-not-stored", ["C12"], SOCK, "chunks, self._partial = self.dechunk(data)", "chunks, _ = self.dechunk(data)")
fire("c12-gzip-wbits", ["C12"], SOCK, "chunk = decompress(chunk, wbits=MAX_WBITS | 16)", "chunk = decompress(chunk, wbits=MAX_WBITS)")
fire("c12-deflate-sign", ["C12"], SOCK, "chunk = decompress(chunk, wbits=-MAX_WBITS)", "chunk = decompress(chunk, wbits=MAX_WBITS)")
fire("c12-extra-exit", ["C12"], SOCK, "            if chunk_length != 0:\n                chunk = instream.read(chunk_length)", "            if chunk_length > 65536:\n                break\n            if chunk_length != 0:\n                chunk = instream.read(chunk_length)", "large chunks silently dropped")
silent("c12-check-style", ["C12"], [(SOCK, 'if len(chunk) != chunk_length or term[-2:] != b"\\r\\n":', 'if len(chunk) < chunk_length or not term.endswith(b"\\r\\n"):')], "equivalent completeness tests")
silent("c12-zero-chunk-else", ["C12"], [(SOCK, "                chunks += chunk\n\n            if chunk_length == 0:\n                # final chunk\n                break", "                chunks += chunk\n            else:\n                # final chunk\n                break")], "equivalent structure")

# ----------------------------------------------------------------------------- C03 / C06
fire("c03-msb-precedence", ["C03"], MSG, "msb = 1 << asiz - 1 if atyp in (INTS, INT) else 0", "msb = (1 << asiz) - 1 if atyp in (INTS, INT) else 0", "classic precedence slip: sign test against an all-ones mask")
fire("c03-int-sub-half", ["C03"], MSG, "                val -= 1 << asiz\n", "                val -= 1 << asiz - 1\n")
fire("c03-snt-no-negate", ["C03"], MSG, "                if bits & msb:\n                    val *= -1\n", "                if bits & msb:\n                    val *= 1\n")
fire("c03-snt-mask", ["C03"], MSG, "                val = bits & msb - 1\n", "                val = bits & msb\n")
fire("c03-offset-skip", ["C03"], MSG, "        offset += asiz\n", "        offset += asiz + (1 if atyp == CHA else 0)\n", "character fields advance one bit too far")
fire("c03-shift-off-by-one", ["C03", "C06"], MSG, "self._payloadi >> (self._payblen - offset - asiz)", "self._payloadi >> (self._payblen - offset - asiz + 1)")
fire("c03-mask-narrow", ["C03"], MSG, "& ((1 << asiz) - 1)", "& ((1 << asiz - 1) - 1)")
fire("c03-scale-includes-one", ["C03"], MSG, "if ares not in (0, 1):  # apply any scaling factor\n                    val *= ares", "if ares not in (0, 1):  # apply any scaling factor\n                    val *= ares * 2") 
fire("c03-scale-int-only", ["C03"], MSG, "                if ares not in (0, 1):  # apply any scaling factor", "                if ares not in (0, 1) and atyp in (INT, INTS):  # apply any scaling factor", "unsigned scaled fields left raw")
fire("c03-str-zero", ["C03"], MSG, 'val = "" if val == 0 else chr(bits)', 'val = "" if val == 32 else chr(bits)')
fire("c03-cha-ord", ["C03"], MSG, "                val = chr(bits)\n            else:  # all other types", "                val = chr(bits & 0x7F)\n            else:  # all other types", "characters above 127 mangled")
fire("c03-payloadi-little", ["C03", "C06"], MSG, 'self._payloadi = int.from_bytes(self._payload, "big")', 'self._payloadi = int.from_bytes(self._payload, "little")')
fire("c03-payblen-bytes", ["C03", "C06"], MSG, "self._payblen = len(self._payload) * 8", "self._payblen = len(self._payload) * 8 + 8", "reads one byte into non-existent data")
silent("c03-value-style", ["C03"], [(MSG, "            if atyp == INT and bits & msb:  # 2's compliment -ve int\n                val -= 1 << asiz\n", "            if atyp == INT and bits >= msb:  # 2's compliment -ve int\n                val = val - (1 << asiz)\n")], "equivalent sign handling")
silent("c03-negate-style", ["C03"], [(MSG, "                    val *= -1\n", "                    val = -val\n")], "equivalent negation")

fire("c03-offset-add-dropped", ["C03"], MSG, "        offset += asiz\n\n        # add special attributes", "        # add special attributes", "offset never advances")
fire("c03-group-rebinding-dropped", ["C03"], MSG, "            for anamg in gdict:\n                offset, index = self._set_attribute(anamg, gdict, offset, index)\n\n        index.pop()", "            for anamg in gdict:\n                self._set_attribute(anamg, gdict, offset, index)\n\n        index.pop()", "group results discarded: every group field read from the same bits")
fire("c03-index-i", ["C03"], MSG, "            index[-1] = i + 1\n", "            index[-1] = i\n", "group indices start at 0: first occurrence un-indexed")
fire("c03-suffix-3d", ["C03", "C18"], MSG, '                anami += f"_{i:02d}"', '                anami += f"_{i:03d}"')
fire("c03-pop-missing", ["C03"], MSG, "        index.pop()  # remove this (nested) group index\n", "")
fire("c03-plusone-wrong-field", ["C03", "C10", "C18"], MSG, '            if anam == "IDF035":  # 4076_201 range is N-1', '            if anam == "IDF036":  # 4076_201 range is N-1')
fire("c03-nested-suffix-index", ["C03"], MSG, '                    anam += f"_{index[i]:02d}"', '                    anam += f"_{index[-1]:02d}"', "nested counter looked up under the innermost index")
fire("c03-optional-neq", ["C03"], MSG, "        if getattr(self, anam) == con:  # if condition is met...", "        if getattr(self, anam) >= con:  # if condition is met...")
fire("c03-optional-resets-offset", ["C03"], MSG, "                offset, index = self._set_attribute(anamg, gdict, offset, index)\n\n        return offset, index\n\n    def _set_attribute_group", "                offset, index = self._set_attribute(anamg, gdict, offset, index)\n        else:\n            offset += 0 * len(gdict) + 1\n\n        return offset, index\n\n    def _set_attribute_group", "absent optional group consumes a bit")
fire("c03-dispatch-swapped", ["C03"], MSG, "            if isinstance(gtyp, tuple):  # conditional group of attributes", "            if not isinstance(gtyp, tuple):  # conditional group of attributes")
fire("c03-driver-offset-1", ["C03"], MSG, "        offset = 0  # payload offset in bits\n", "        offset = 1  # payload offset in bits\n")
fire("c03-harmonic-formula", ["C03"], MSG, "nc = int(((N + 1) * (N + 2) / 2) - ((N - M) * (N - M + 1) / 2))", "nc = int(((N + 1) * (N + 2) / 2) - ((N - M) * (N - M - 1) / 2))")
fire("c03-harmonic-ns", ["C03"], MSG, "ns = int(nc - (N + 1))", "ns = int(nc - N)")
fire("c03-harmonic-layer-1", ["C03"], MSG, 'N = getattr(self, f"IDF037_{i:02d}") + 1', 'N = getattr(self, "IDF037_01") + 1', "coefficient counts always taken from the first layer")
fire("c03-extra-public-attr", ["C03"], MSG, "        offset += asiz\n\n        # add special attributes", "        offset += asiz\n        setattr(self, \"LASTFIELD\", anam)\n\n        # add special attributes", "an undocumented public attribute appears on every message")
fire("c03-payload-read-elsewhere", ["C03"], MSG, "        if self._unknown:\n            stg += \", Not_Yet_Implemented\"", "        if self._unknown or self._payload[-1:] == b\"\\x00\":\n            stg += \", Not_Yet_Implemented\"", "bytes after the last field influence the string form")
fire("c03-str-indexed", ["C03"], MSG, '            setattr(self, anam, getattr(self, anam, "") + val)', '            setattr(self, anami, getattr(self, anami, "") + val)', "text units no longer joined into one attribute")
silent("c03-group-enumerate", ["C03"], [(MSG, "        for i in range(gsiz):\n            index[-1] = i + 1\n", "        for rep in range(gsiz):\n            index[-1] = rep + 1\n")], "loop variable renamed")

# ----------------------------------------------------------------------------- C06
fire("c06-shift-saturates", ["C06", "C03"], MSG, "self._payloadi >> (self._payblen - offset - asiz)", "self._payloadi >> max(0, self._payblen - offset - asiz)", "reads past the end return low bits instead of failing (survives the test-suite)")
fire("c06-swallow-valueerror", ["C06"], MSG, "        except Exception as err:  # pragma: no cover\n            raise RTCMTypeError(", "        except ValueError:  # pragma: no cover\n            return\n        except Exception as err:  # pragma: no cover\n            raise RTCMTypeError(", "truncated messages returned as if complete")
fire("c06-handler-narrow", ["C06"], MSG, "        except Exception as err:  # pragma: no cover", "        except (KeyError, AttributeError) as err:  # pragma: no cover", "ValueError from the bounds failure escapes as a foreign exception")
fire("c06-single-try", ["C06"], MSG, "            bits = self._payloadi >> (self._payblen - offset - asiz) & ((1 << asiz) - 1)\n", "            try:\n                bits = self._payloadi >> (self._payblen - offset - asiz) & ((1 << asiz) - 1)\n            except ValueError:\n                bits = 0\n", "fields past the end decode as zero")
fire("c06-payblen-padded", ["C06", "C03"], MSG, "self._payblen = len(self._payload) * 8", "self._payblen = (len(self._payload) + 1) * 8")
fire("c06-conditional-raise", ["C06"], MSG, "            raise RTCMTypeError(\n                (\n                    f\"Error processing attribute '{anam}' \"\n                    f\"in message type {self.identity} {err}\"\n                )\n            ) from err", "            if not isinstance(err, ValueError):\n                raise RTCMTypeError(f\"Error processing attribute '{anam}' {err}\") from err")
silent("c06-explicit-guard", ["C06", "C03"], [(MSG, "            bits = self._payloadi >> (self._payblen - offset - asiz) & ((1 << asiz) - 1)\n", "            if offset + asiz > self._payblen:\n                raise ValueError(\"field extends past end of payload\")\n            bits = self._payloadi >> (self._payblen - offset - asiz) & ((1 << asiz) - 1)\n")], "explicit bounds check in addition to the shift")
# ----------------------------------------------------------------------------- C16
fire("c16-label-in-prn", ["C16"], MSG, "                self._satmap[nsat] = prnmap.get(idx, NA)", "                self._satmap[nsat] = prnmap.get(idx, NA) if self._labelmsm != 2 else str(idx)", "the option changes satellite labels too")
fire("c16-keyword-dropped", ["C16"], RDR, "                labelmsm=self._labelmsm,\n", "", "reader option never reaches the message")
fire("c16-parse-ignores", ["C16"], RDR, "return RTCMMessage(payload=payload, labelmsm=labelmsm)", "return RTCMMessage(payload=payload)")
fire("c16-option-affects-count", ["C16"], MSG, "                sigs.append(fqc)\n                nsig += 1", "                sigs.append(fqc)\n                nsig += 1 if fqc != NA or self._labelmsm == 1 else 0", "unknown signals dropped under one option only")
fire("c16-option-in-single", ["C16"], MSG, "            val = self._cellmap[index[0]][0]", "            val = self._cellmap[index[0]][0] if self._labelmsm != 2 else self._cellmap[index[0]][0].lstrip(\"0\")")
fire("c16-option-in-str", ["C16"], MSG, '        stg = f"<RTCM({self.identity}, "', '        stg = f"<RTCM({self.identity}, " if self._labelmsm else "<RTCM("')
fire("c16-second-table-lookup", ["C16"], MSG, "                fqc = sgc[1] if sigcode else sgc[0]", "                fqc = sgc[1] if sigcode else sigmap.get(idx + 1, (NA, NA))[0]", "band label taken from the next signal ID")
fire("c16-default-mismatch", ["C16"], RDR, "        message: bytes,\n        validate: int = VALCKSUM,\n        labelmsm: int = 1,", "        message: bytes,\n        validate: int = VALCKSUM,\n        labelmsm: int = 2,")
silent("c16-sigcode-style", ["C16", "C09"], [(MSG, "        sigcode = 0 if self._labelmsm == 2 else 1\n", "        sigcode = self._labelmsm != 2\n")], "equivalent option test")

# ----------------------------------------------------------------------------- C04
fire("c04-length-guard-removed", ["C04"], MSG, "        if len(self._payload) < 2:\n            raise RTCMMessageError(\"Payload must be at least 2 bytes (message number)\")\n", "", "original defect F-C04 re-introduced: IndexError from identity inside the handler")
fire("c04-subtype-guard-removed", ["C04"], MSG, "if mid == 4076 and len(self._payload) > 2:", "if mid == 4076:", "two-byte 4076 payload raises IndexError")
fire("c04-guard-one-byte", ["C04"], MSG, "        if len(self._payload) < 2:\n", "        if len(self._payload) < 1:\n", "one-byte payload still indexes byte 1")
fire("c04-decoder-handler-narrow", ["C04"], MSG, "        except Exception as err:  # pragma: no cover", "        except (ValueError, AttributeError) as err:  # pragma: no cover", "KeyError/IndexError from the decoder escape (survives the test-suite)")
fire("c04-reader-handler-class-removed", ["C04"], RDR, "                RTCMStreamError,\n                RTCMTypeError,\n            ) as err:", "                RTCMStreamError,\n            ) as err:", "RTCMTypeError escapes the iterator in ignore mode")
fire("c04-parse-unguarded-subscript", ["C04"], RDR, "        payload = message[3:-3]\n", "        payload = message[3:-3]\n        if message[2] + 6 != len(message) and validate > 1:\n            raise RTCMParseError(\"length mismatch\")\n", "IndexError for buffers shorter than 3 bytes")
fire("c04-new-loop", ["C04"], RDR, "        data = self._stream.read(size)\n", "        data = self._stream.read(size)\n        while len(data) < size and data:\n            data += self._stream.read(0)\n", "retry loop that never makes progress")
fire("c04-eof-handler-removed", ["C04", "C02"], RDR, "            except EOFError:\n                return (None, None)\n", "", "EOFError escapes at end of stream")
fire("c04-do-error-raises-always", ["C04", "C05"], RDR, "        if self._quitonerror == ERR_RAISE:\n            raise err from err", "        if self._quitonerror >= ERR_LOG:\n            raise err from err", "log mode raises")
fire("c04-getattr-in-handler", ["C04"], MSG, '                    f"in message type {self.identity} {err}"', '                    f"in message type {self.identity} {err} at {self._lastattr}"', "AttributeError raised while building the error message")
fire("c04-stopiteration-elsewhere", ["C04"], RDR, "        byten = self._read_line()  # NMEA protocol is CRLF-terminated\n", "        byten = self._read_line()  # NMEA protocol is CRLF-terminated\n        if not byten.endswith(b\"\\r\\n\"):\n            raise StopIteration\n")
silent("c04-length-guard-style", ["C04", "C15"], [(MSG, "        if len(self._payload) < 2:\n", "        if not len(self._payload) >= 2:\n")], "equivalent guard")

fire("c13-class-counter", ["C13"], MSG, "        self._unknown = False\n", "        self._unknown = False\n        RTCMMessage.parsed_count = getattr(RTCMMessage, \"parsed_count\", 0) + 1\n", "class-level counter written by every parse")
silent("c08-gate-trailer-compare", ["C08", "C01", "C05", "C17"], [(RDR, "            if calc_crc24q(message):", "            if calc_crc24q(message[:-3]) != int.from_bytes(message[-3:], \"big\"):")], "equivalent CRC test (computed remainder vs transmitted trailer)")

# ----------------------------------------------------------------------------- mutants of accepted refactorings
# (a benign patch of /verif/benign is applied first, then the edit: the generalised rules must still reject the broken version)
def fire_on(id, props, base, file, old, new, what="", rules=None):
    V.append({"id": id, "props": props if isinstance(props, list) else [props], "expect": "fire", "edits": [], "base_patch": base,
              "post_edits": [(file, old, new)], "what": what, "rules": rules or {}})


fire_on("r41-outer-range-short", ["C09", "C03"], "R4-1", MSG, "for sat in range(1, nsat + 1):", "for sat in range(1, nsat):", "last satellite's cells never labelled")
fire_on("r41-label-swapped", ["C09"], "R4-1", MSG, "cellmap[ncell] = (prn, sig)", "cellmap[ncell] = (sig, prn)", "cell label components swapped")
fire_on("r41-nsig-off", ["C09"], "R4-1", MSG, "nsig = len(sigs)", "nsig = len(sigs) + 1", "signal count off by one: wrong cell bit positions")
fire_on("r24-enumerate-from-zero", ["C09"], "R2-4", MSG, "enumerate(product(range(nsat), range(nsig)), 1)", "enumerate(product(range(nsat), range(nsig)), 0)", "cell ordinal off by one")
fire_on("r24-product-transposed", ["C09"], "R2-4", MSG, "product(range(nsat), range(nsig))", "product(range(nsig), range(nsat))", "cells scanned signal-major")
fire_on("r24-len-key-zero-based", ["C09"], "R2-4", MSG, "self._satmap[len(self._satmap) + 1]", "self._satmap[len(self._satmap)]", "satellite map keyed from 0 while consumers index from 1")
fire_on("h1-table-index-shift", ["C08"], "H-1", HLP, "((crc >> 16) ^ octet) & 0xFF", "((crc >> 15) ^ octet) & 0xFF", "table indexed by the wrong state bits")
fire_on("h1-table-no-mask", ["C08"], "H-1", HLP, "((crc << 8) & 0xFFFFFF)", "(crc << 8)", "state not reduced to 24 bits")
fire_on("r53-short-result-returned", ["C01", "C02"], "R5-3", RDR, "if nread >= size:", "if nread >= size or nread > 2:", "a short read of 3+ bytes is returned as if complete")
fire_on("r53-eof-for-zero-request", ["C02"], "R5-3", RDR, "if nread >= size:", "if nread >= size and nread > 0:", "zero-length request reported as end of data")
fire_on("r46-layer-count-plus-two", ["C03", "C10", "C06"], "R4-6", MSG, "gsiz += 1\n        return gsiz", "gsiz += 2\n        return gsiz", "layer group repeated once too often")
fire_on("r46-helper-skips-first", ["C03"], "R4-6", MSG, "for anamg in gdict:\n            offset, index = self._set_attribute(anamg, gdict, offset, index)\n        return offset, index", "for anamg in list(gdict)[1:]:\n            offset, index = self._set_attribute(anamg, gdict, offset, index)\n        return offset, index", "extracted body helper drops the first field of every group")
fire_on("r66-collate-short", ["C18"], "R6-6", HLP, "for i in range(1, size + 1):", "for i in range(1, size):", "last satellite / cell dropped from the arrays")
fire_on("r66-att2idx-first-only", ["C19"], "R6-6", HLP, "return tuple(int(idx) for idx in indices)", "return int(indices[0])", "nested index collapsed to its first level")
fire_on("r42-size-attrs-swapped", ["C03", "C09"], "R4-2", MSG, '{"DF394": NSAT, "DF395": NSIG, "DF396": NCELL}', '{"DF394": NSIG, "DF395": NSAT, "DF396": NCELL}', "satellite / signal counts exchanged")
fire_on("r42-harmonic-floor-misplaced", ["C03", "C10"], "R4-2", MSG, "nc = (N + 1) * (N + 2) // 2 - (N - M) * (N - M + 1) // 2", "nc = (N + 1) * (N + 2) // 2 - (N - M) * (N - M - 1) // 2", "wrong coefficient count")
fire_on("r45-stub-number-field", ["C15"], "R4-5", MSG, "self.DF002 = self.identity", "self.DF003 = self.identity", "stub stores the message number under the wrong name")
fire_on("r63-shared-run-field-changed", ["C10"], "R6-3", GET, '    "DF039": "GLONASS L1 Code Indicator",', '    "DF040": "GLONASS L1 Code Indicator",', "refactored tables: a field key changed in a shared run of attributes")
fire_on("r56-table-wrong-parser", ["C02"], "R5-6", RDR, '(NMEA_HDR, "_parse_nmea"),', '(NMEA_HDR, "_parse_ubx"),', "NMEA sentences handed to the UBX skipper")
fire_on("r56-table-name-typo", ["C04"], "R5-6", RDR, '((UBX_HDR,), "_parse_ubx"),', '((UBX_HDR,), "_parse_ubxx"),', "AttributeError from the name-driven dispatch")
fire_on("r56-else-on-wrong-level", ["C02"], "R5-6", RDR, "                        (raw_data, parsed_data) = getattr(self, parser)(bytehdr)\n                        break\n", "                        (raw_data, parsed_data) = getattr(self, parser)(bytehdr)\n", "skipped protocols fall into the RTCM3 / unknown-header branch")
fire_on("r73-divmod-divisor", ["C09"], "R7-3", MSG, "sat, sig = divmod(idx, nsig)", "sat, sig = divmod(idx, nsat)", "cells mapped signal-major")
fire_on("r73-comp-range-short", ["C09", "C03"], "R7-3", MSG, "for idx in range(33)\n", "for idx in range(32)\n", "last signal ID never examined")
fire_on("r73-cell-position", ["C09"], "R7-3", MSG, "(1 << (ncells - 1 - idx))", "(1 << (ncells - idx))", "cell mask read one bit off")
fire_on("r72-walrus-two-bytes", ["C11"], "R7-2", SOCK, "while len(data := self.read(1)) == 1:", "while len(data := self.read(2)) == 1:", "reads two bytes per iteration and stops on a full read")
fire_on("r72-endswith-lf-only", ["C11"], "R7-2", SOCK, 'if line.endswith(b"\\r\\n"):', 'if line.endswith(b"\\n"):', "line ends at a bare LF")
fire_on("r76-bytes-order", ["C07"], "R7-6", HLP, "bytes((crc >> 16, crc >> 8 & 0xFF, crc & 0xFF))", "bytes((crc & 0xFF, crc >> 8 & 0xFF, crc >> 16))", "CRC bytes little-endian")
fire_on("r71-handler-returns", ["C02", "C05"], "R7-1", RDR, "                if self._quitonerror:\n                    self._do_error(err)\n", "                if self._quitonerror:\n                    self._do_error(err)\n                return (None, None)\n", "iteration ends at the first damaged frame")

VARIANTS = V
