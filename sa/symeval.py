"""
Structured abstract evaluator: one forward pass over a function body in the Herbrand (term)
domain with gated joins.

  * every local and every `self.<field>` is mapped to a *term* (nested tuples, hashable);
  * straight-line code substitutes definitions into uses (use-def inlining);
  * an `if` whose test folds to a constant keeps only the live branch (conditional constant
    propagation / partial evaluation on a finite key); otherwise both branches are evaluated
    and the join is the gated term ('ite', cond, a, b) - exact, no path explosion, no solver;
  * a loop with a constant trip count may be unrolled; any other loop is evaluated once with
    its loop-carried variables replaced by opaque ('loop', id, name) symbols;
  * every call, store, return and raise is recorded as an *effect* in evaluation order,
    together with the branch conditions guarding it, its enclosing loops/try/handler.

Nothing is executed: terms are built from the syntax tree; the only arithmetic performed is
constant folding of operators applied to literals found in the source.
"""

from __future__ import annotations

import ast
import operator
from dataclasses import dataclass, field

from .consteval import ConstEval, Ref, Unknown
from .front import FuncInfo, norm

TOP = ("top",)


def const(v):
    return ("const", v)


def is_const(t):
    return isinstance(t, tuple) and len(t) == 2 and t[0] == "const"


def top(why=""):
    return ("top", why)


def is_top(t):
    return isinstance(t, tuple) and t and t[0] == "top"


_BIN = {
    ast.Add: ("+", operator.add), ast.Sub: ("-", operator.sub), ast.Mult: ("*", operator.mul),
    ast.Div: ("/", operator.truediv), ast.FloorDiv: ("//", operator.floordiv), ast.Mod: ("%", operator.mod),
    ast.Pow: ("**", operator.pow), ast.BitOr: ("|", operator.or_), ast.BitAnd: ("&", operator.and_),
    ast.BitXor: ("^", operator.xor), ast.LShift: ("<<", operator.lshift), ast.RShift: (">>", operator.rshift),
}
_BINFN = {sym: fn for sym, fn in _BIN.values()}
_UN = {ast.USub: ("neg", operator.neg), ast.UAdd: ("pos", operator.pos), ast.Invert: ("~", operator.invert), ast.Not: ("not", operator.not_)}
_CMP = {
    ast.Eq: ("==", operator.eq), ast.NotEq: ("!=", operator.ne), ast.Lt: ("<", operator.lt), ast.LtE: ("<=", operator.le),
    ast.Gt: (">", operator.gt), ast.GtE: (">=", operator.ge), ast.In: ("in", lambda a, b: a in b),
    ast.NotIn: ("not in", lambda a, b: a not in b), ast.Is: ("is", operator.is_), ast.IsNot: ("is not", operator.is_not),
}
_CMPFN = {sym: fn for sym, fn in _CMP.values()}
NEGATE = {"==": "!=", "!=": "==", "<": ">=", ">=": "<", ">": "<=", "<=": ">", "in": "not in", "not in": "in", "is": "is not", "is not": "is"}

PURE_BUILTINS = {"len": len, "int": int, "str": str, "bin": bin, "chr": chr, "ord": ord, "bytes": bytes, "abs": abs,
                 "min": min, "max": max, "bool": bool, "tuple": tuple, "float": float, "range": range, "slice": slice, "isinstance": None}
PURE_METHODS = {"to_bytes", "count", "strip", "split", "rsplit", "startswith", "endswith", "upper", "lower", "hex",
                "ljust", "rjust", "zfill", "bit_length", "decode", "encode", "join", "replace", "find", "index", "get",
                "keys", "values", "items"}


@dataclass
class Effect:
    seq: int
    kind: str  # call | store | setitem | return | raise | aug
    node: ast.AST
    term: tuple  # call term | stored value | returned value | raised value
    target: tuple | None = None  # store: ('self', attr) / ('local-item', name, key) ...
    guards: tuple = ()  # conditions that hold on every path reaching the effect: ((cond, polarity), ...)
    loops: tuple = ()
    trys: tuple = ()
    handler: ast.AST | None = None
    stmt: ast.AST | None = None
    dnf: tuple = ((),)  # full path condition in disjunctive normal form: tuple of conjunctions

    @property
    def line(self):
        return getattr(self.node, "lineno", 0)


MAX_DNF = 48


def expand_literal(c, pol):
    """(cond, polarity) -> list of conjunctions (DNF) over simpler literals."""
    if c[0] == "and":
        if pol:
            out = [()]
            for x in c[1]:
                out = [a + b for a in out for b in expand_literal(x, True)]
            return out
        out, prefix = [], ()
        for x in c[1]:
            for b in expand_literal(x, False):
                out.append(prefix + b)
            pos = expand_literal(x, True)
            prefix = prefix + (pos[0] if len(pos) == 1 else ((x, True),))
        return out
    if c[0] == "or":
        if not pol:
            out = [()]
            for x in c[1]:
                out = [a + b for a in out for b in expand_literal(x, False)]
            return out
        out, prefix = [], ()
        for x in c[1]:
            for b in expand_literal(x, True):
                out.append(prefix + b)
            neg = expand_literal(x, False)
            prefix = prefix + (neg[0] if len(neg) == 1 else ((x, False),))
        return out
    if c[0] == "not":
        return expand_literal(c[1], not pol)
    if c[0] == "truth":
        return expand_literal(c[1], pol)  # bool(x) as a condition is x as a condition
    if c[0] == "sel":
        # the result of an inlined helper is one of its alternatives (exhaustive, each with its own path condition): the test holds exactly on
        # the chosen ones and fails exactly on the others
        return [conj for i, (conj, _) in enumerate(c[1]) if (i in c[2]) == pol]
    if c[0] == "cmp" and not pol and c[1] in NEGATE:
        return [((("cmp", NEGATE[c[1]], c[2], c[3]), True),)]  # canonical form: comparisons are stored positively
    return [((c, pol),)]


def neg_lit(lit):
    """Canonical negation of a literal (comparisons are stored positively with the negated operator)."""
    c, pol = lit
    if c[0] == "cmp" and c[1] in NEGATE:
        return (("cmp", NEGATE[c[1]], c[2], c[3]), True) if pol else (c, True)
    return (c, not pol)


def dnf_and(dnf, c, pol):
    out = []
    for conj in dnf:
        for lits in expand_literal(c, pol):
            new = conj
            dead = False
            for lit in lits:
                if is_const(lit[0]) and isinstance(lit[0][1], bool):
                    if lit[0][1] != lit[1]:
                        dead = True
                        break
                    continue
                if neg_lit(lit) in new or (lit[0], not lit[1]) in new:
                    dead = True
                    break
                if lit not in new:
                    new = new + (lit,)
            if not dead:
                out.append(new)
    return _dnf_simplify(out)


def dnf_or(a, b):
    return _dnf_simplify(list(a) + list(b))


def _dnf_simplify(conjs):
    conjs = list(dict.fromkeys(conjs))
    changed = True
    while changed and len(conjs) > 1:
        changed = False
        for i in range(len(conjs)):
            for j in range(i + 1, len(conjs)):
                a, b = conjs[i], conjs[j]
                if len(a) == len(b):
                    da = [l for l in a if l not in b]
                    db = [l for l in b if l not in a]
                    if len(da) == 1 and len(db) == 1 and (neg_lit(da[0]) == db[0] or (da[0][0] == db[0][0] and da[0][1] != db[0][1])):
                        conjs[i] = tuple(l for l in a if l != da[0])
                        del conjs[j]
                        changed = True
                        break
                sa, sb = set(a), set(b)
                if sa <= sb:
                    del conjs[j]
                    changed = True
                    break
                if sb <= sa:
                    del conjs[i]
                    changed = True
                    break
            if changed:
                break
    if len(conjs) > MAX_DNF:
        common = tuple(l for l in conjs[0] if all(l in c for c in conjs))
        return (common,)
    return tuple(conjs)


def dnf_common(dnf):
    if not dnf:
        return ()
    return tuple(l for l in dnf[0] if all(l in c for c in dnf))


class _View:
    """A view of a constant dict (keys / values / items) as a constant: iterable, comparable by content (the views themselves compare by identity)."""

    def __init__(self, kind, view):
        self.kind, self.elems = kind, tuple(view)

    def __iter__(self):
        return iter(self.elems)

    def __len__(self):
        return len(self.elems)

    def __eq__(self, o):
        return isinstance(o, _View) and (self.kind, self.elems) == (o.kind, o.elems)

    def __hash__(self):
        try:
            return hash((self.kind, self.elems))
        except TypeError:
            return hash((self.kind, len(self.elems)))

    def __repr__(self):
        return f"{self.kind}({list(self.elems)!r})"


class _Term:
    """A term standing where a Python value is expected (the single element of a display being unrolled)."""

    def __init__(self, t):
        self.t = t


@dataclass
class State:
    env: dict
    dnf: tuple = ((),)
    dead: str | None = None  # return | raise | break | continue
    seq: int = -1  # number of effects recorded when this snapshot was taken (loop-end snapshots)

    @property
    def guards(self):
        return dnf_common(self.dnf)

    @guards.setter
    def guards(self, g):
        self.dnf = (tuple(g),)

    def copy(self):
        return State(dict(self.env), self.dnf, self.dead)

    def assume(self, c, pol):
        self.dnf = dnf_and(self.dnf, c, pol)


class SymEval:
    def __init__(self, ce: ConstEval, func: FuncInfo, bind: dict | None = None, override=None, unroll: int = 0,
                 modenv: dict | None = None, selfname: str | None = None, uid_base: int = 0, frozen_fields=(), on_index=None, inline=None, param_len=None, len_hook=None):
        self.ce = ce
        self.func = func
        self.modenv = modenv if modenv is not None else ce.module_env(func.module)
        self.bind = bind or {}
        self.override = override
        self.unroll = unroll
        self.effects: list[Effect] = []
        self.uid = uid_base
        self.frozen_fields = frozenset(frozen_fields)
        self.on_index = on_index
        self.inline = inline  # callable(call node, callee term, caller FuncInfo) -> FuncInfo to inline, or None
        self.len_hook = len_hook  # callable(term) -> exact length of an atomic byte-string source (or None); supplied by rules that assume a read contract
        self.param_len = dict(param_len or {})  # parameter -> exact len(), known from every call site (byte strings handed to private methods)
        self._inline_stack = []  # [(FuncInfo, returns list)]
        self._lid_prefix = ""
        self._loops: list = []
        self._stable_found = None
        self._jump_targets: list = []  # what break / continue refer to: the innermost loop, or the current iteration of a loop being unrolled
        self._trys: list = []
        self._handler = None
        self._stmt = None
        self.selfname = selfname if selfname is not None else (func.params[0] if func.cls and not func.is_static and func.params else None)
        self.unsupported: list[ast.AST] = []
        self.undef_reads: list[ast.AST] = []  # Name loads of locals that are unbound on the evaluated path
        self.format_tables: list = []  # (table length, index term, sep, spec) for T[i] normalised to f'{sep}{i:spec}'
        self.loop_info: dict = {}
        self.final: State | None = None
        self._snapshots: dict = {}  # try id -> list of env snapshots taken before each possibly-raising statement
        self._loop_ends: dict = {}  # loop id -> list of (kind, State) for continue / break exits
        self._alts: dict = {}  # gated constant returned by an inlined helper -> its alternatives ((extra path literals, value), ...)
        self._try_depth: dict = {}  # try id -> inline depth of the frame the try statement belongs to
        self._frame_envs: list = []  # environments of the calling frames while a helper is inlined
        self._open_stmts: list = []  # statements whose evaluation is in progress (innermost last)
        self._iter_dirty: dict = {}  # loop id -> a statement has completed in the current symbolic iteration
        self._head_mark: dict = {}  # loop id -> (number of effects recorded when the current iteration's body was entered, loop node, inline depth)
        self._tail_ends: dict = {}  # loop id -> per-path states at the statements from which control falls off the end of the loop body
        self._tail_stack: list = []  # (loop id, ids of tail-position leaf statements, ids of tail-position ifs without else)

    # ------------------------------------------------------------------ driver
    def run(self):
        env = {}
        for p in self.func.params:
            env[p] = self.bind.get(p, ("param", p))
        a = self.func.node.args
        if a.vararg:
            env[a.vararg.arg] = ("param", a.vararg.arg)
        if a.kwarg:
            env[a.kwarg.arg] = ("param", a.kwarg.arg)
        if self.selfname:
            env[self.selfname] = ("self",)
        for k, v in self.bind.items():
            if k.startswith("self."):
                env[k] = v
        st = State(env)
        body = list(self.func.node.body)
        # constant prologue: leading statements that mention no parameter and that the constant folder can run (a small table built on every call,
        # `table = []; for k in range(4): ...; table.append(...)`) are run by it, and the locals they leave are constants of the body
        try:
            names = set(env) | {a.vararg.arg if a.vararg else None, a.kwarg.arg if a.kwarg else None}
            loc: dict = {}
            k = 0
            while k < len(body):
                stt = body[k]
                if isinstance(stt, ast.Expr) and isinstance(stt.value, ast.Constant):
                    k += 1
                    continue
                if not isinstance(stt, (ast.Assign, ast.For, ast.While, ast.AugAssign, ast.Expr)) or any(isinstance(n_, ast.Name) and n_.id in names for n_ in ast.walk(stt)) \
                        or any(isinstance(n_, (ast.Yield, ast.YieldFrom, ast.Await, ast.Lambda)) for n_ in ast.walk(stt)):
                    break
                # only compound statements are worth folding (plain assignments are evaluated as well by the term evaluator itself)
                trial = dict(loc)
                from .consteval import _Unfoldable

                try:
                    r_ = self.ce._run_block(self.func.module, [stt], self.modenv, trial, [4000])
                except _Unfoldable:
                    break
                except Exception:  # noqa: BLE001 - anything the folder cannot do leaves the statement to the evaluator
                    break
                if r_ is not None:
                    break
                loc = trial
                k += 1
            rest_ = body[k:]

            def untouched(n_):
                # the rest of the function only reads the local: no rebinding, no item store, no method call on it (a mutation would go unseen)
                for x in rest_:
                    for y in ast.walk(x):
                        if isinstance(y, ast.Name) and y.id == n_ and not isinstance(y.ctx, ast.Load):
                            return False
                        if isinstance(y, ast.Attribute) and isinstance(y.value, ast.Name) and y.value.id == n_:
                            return False
                        if isinstance(y, ast.Subscript) and isinstance(y.value, ast.Name) and y.value.id == n_ and not isinstance(y.ctx, ast.Load):
                            return False
                return True

            if any(isinstance(x, (ast.For, ast.While)) for x in body[:k]) and loc and all(untouched(n_) or not isinstance(v_, (list, dict, set)) for n_, v_ in loc.items()) \
                    and all(untouched(n_) for n_, v_ in loc.items() if isinstance(v_, (list, dict, set))):
                for n_, v_ in loc.items():
                    st.env[n_] = self.lift(v_)
                body = rest_
        except Exception:  # noqa: BLE001
            body = list(self.func.node.body)
        st = self.block(body, st)
        self.final = st
        return self

    # ------------------------------------------------------------------ helpers
    def _new_uid(self):
        self.uid += 1
        return self.uid

    def _effect(self, kind, node, term, st, target=None):
        e = Effect(len(self.effects), kind, node, term, target, st.guards, tuple(self._loops), tuple(self._trys), self._handler, self._stmt, st.dnf)
        self.effects.append(e)
        return e

    def _ov(self, t):
        if self.override is not None:
            r = self.override(t)
            if r is not None:
                return r
        return t

    # ------------------------------------------------------------------ statements
    def block(self, stmts, st: State) -> State:
        stmts = _rotate_primed_loops(stmts)
        while len(stmts) > 1 and isinstance(stmts[0], ast.Expr) and isinstance(stmts[0].value, ast.Constant):
            stmts = stmts[1:]  # docstring
        if stmts and isinstance(stmts[0], ast.While) and self._loops and self._head_mark.get(self._loops[-1], (None,))[0] == len(self.effects):
            stmts = self._flatten_discard_loop(stmts)
        for s in stmts:
            if st.dead:
                break
            st = self.stmt(s, st)
        if stmts and not st.dead and self._tail_stack and self._loops and self._tail_stack[-1][0] == self._loops[-1] and id(stmts[-1]) in self._tail_stack[-1][1]:
            self._tail_end(st)
        return st

    def _flatten_discard_loop(self, stmts):
        """At the very start of an iteration of an enclosing loop (nothing has happened in it yet):
              while True: S...; if c: break          (skip items until one passes the test)
        is    S...; if not c: continue               of the enclosing loop
        provided the enclosing loop's test is not changed by S (it is re-evaluated by the continue) - the shape the iteration rules follow."""
        w = stmts[0]
        lid = self._loops[-1]
        _, outer, depth, nopen = self._head_mark[lid]
        # nothing of this iteration may have run yet: no completed statement, and between the loop and here only try statements and (when a helper is
        # being inlined) the one simple statement whose call is being evaluated - a `continue` re-executes exactly those
        if self._iter_dirty.get(lid):
            return stmts
        between = self._open_stmts[nopen:]  # statements opened after the loop statement itself
        if any(not isinstance(x, (ast.Try, ast.Assign, ast.AnnAssign, ast.Expr, ast.Return)) for x in between) or sum(1 for x in between if not isinstance(x, ast.Try)) > 1:
            return stmts
        if not (isinstance(w.test, ast.Constant) and w.test.value is True and not w.orelse and w.body):
            return stmts
        last = w.body[-1]
        if not (isinstance(last, ast.If) and not last.orelse and len(last.body) == 1 and isinstance(last.body[0], ast.Break)):
            return stmts
        head = w.body[:-1]
        if _has(head, (ast.Break, ast.Continue)) or any(isinstance(n, (ast.Return, ast.Raise, ast.Yield, ast.YieldFrom)) for x in head for n in ast.walk(x)):
            return stmts
        if not isinstance(outer, ast.While):
            return stmts
        test_names = {n.id for n in ast.walk(outer.test) if isinstance(n, ast.Name)}
        test_fields = {n.attr for n in ast.walk(outer.test) if isinstance(n, ast.Attribute)}
        same_frame = depth == len(self._inline_stack)
        if (same_frame and (_assigned_names(w.body) & test_names)) or (_assigned_fields(w.body, self.selfname) & test_fields) or (test_fields and _calls_self_methods(w.body, self.selfname) and False):
            return stmts
        if any(isinstance(n, ast.Call) for n in ast.walk(outer.test)):
            return stmts
        cont = ast.If(test=ast.UnaryOp(op=ast.Not(), operand=last.test), body=[ast.Continue()], orelse=[])
        ast.copy_location(cont, last)
        ast.copy_location(cont.test, last.test)
        ast.copy_location(cont.body[0], last.body[0])
        ast.fix_missing_locations(cont)
        return list(head) + [cont] + list(stmts[1:])

    def _tail_end(self, st: State):
        snap = st.copy()
        snap.seq = len(self.effects)
        self._tail_ends.setdefault(self._loops[-1], []).append(snap)

    def stmt(self, s, st: State) -> State:
        self._open_stmts.append(s)
        try:
            return self._stmt_impl(s, st)
        finally:
            self._open_stmts.pop()
            # a completed statement (other than a try and a docstring) means the current iteration of the innermost loop is no longer at its very start
            if self._loops and not isinstance(s, ast.Try) and not (isinstance(s, ast.Expr) and isinstance(s.value, ast.Constant)):
                self._iter_dirty[self._loops[-1]] = True

    def _stmt_impl(self, s, st: State) -> State:
        self._stmt = s
        if self._trys and may_raise_stmt(s):
            depth = len(self._inline_stack)
            for tid in self._trys:
                d = self._try_depth.get(tid, depth)
                if d >= depth or d >= len(self._frame_envs):
                    self._snapshots.setdefault(tid, []).append(dict(st.env))
                else:
                    # the try statement belongs to a caller of the helper being inlined: its locals are as they were at the call, the instance
                    # fields as the helper has left them so far
                    snap = dict(self._frame_envs[d])
                    snap.update({k: v for k, v in st.env.items() if k.startswith("self.")})
                    self._snapshots.setdefault(tid, []).append(snap)
        if isinstance(s, ast.Expr):
            if not isinstance(s.value, ast.Constant):
                self.expr(s.value, st)
            return st
        if isinstance(s, ast.Assign):
            v = self.expr(s.value, st)
            for t in s.targets:
                self.assign(t, v, st, s)
            return st
        if isinstance(s, ast.AnnAssign):
            if s.value is not None:
                self.assign(s.target, self.expr(s.value, st), st, s)
            return st
        if isinstance(s, ast.AugAssign):
            cur = self.expr(_as_load(s.target), st)
            rhs = self.expr(s.value, st)
            v = self.binop(_BIN[type(s.op)][0], cur, rhs)
            self.assign(s.target, v, st, s, aug=True)
            return st
        if isinstance(s, ast.Return):
            v = self.expr(s.value, st) if s.value is not None else const(None)
            if self._inline_stack:
                self._inline_stack[-1][1].append((st.dnf, v, dict(st.env)))
            elif v[0] == "ite" and _some_const_leaf(v) and _ite_depth({"v": v}) <= 4:
                # a status chosen on earlier tests and returned at a single exit is the early-return form: one return per alternative, under its tests
                def split(t, state):
                    if t[0] != "ite":
                        self._effect("return", s, t, state)
                        return
                    for pol, sub in ((True, t[2]), (False, t[3])):
                        if (t[1], not pol) in state.guards or neg_lit((t[1], pol)) in state.guards:
                            continue
                        s2 = state.copy()
                        s2.assume(t[1], pol)
                        split(sub, s2)

                split(v, st)
            elif v[0] in ("and", "or"):
                # a conjunction / disjunction of tests returned as the result (`return status is True` with the status chosen on earlier tests):
                # `return True` where it holds, `return False` where it does not
                for pol in (True, False):
                    s2 = st.copy()
                    s2.assume(v, pol)
                    if s2.dnf:
                        self._effect("return", s, const(pol), s2)
            else:
                self._effect("return", s, v, st)
            st.dead = "return"
            return st
        if isinstance(s, ast.Raise):
            v = self.expr(s.exc, st) if s.exc is not None else ("reraise",)
            if s.cause is not None:
                self.expr(s.cause, st)
            self._effect("raise", s, v, st)
            st.dead = "raise"
            return st
        if isinstance(s, ast.If):
            return self.if_(s, st)
        if isinstance(s, (ast.For, ast.While)):
            return self.loop(s, st)
        if isinstance(s, ast.Try):
            return self.try_(s, st)
        if isinstance(s, (ast.Continue, ast.Break)):
            kind = "continue" if isinstance(s, ast.Continue) else "break"
            if self._jump_targets:
                snap = st.copy()
                snap.seq = len(self.effects)
                self._loop_ends.setdefault(self._jump_targets[-1], []).append((kind, snap))
            st.dead = kind
            return st
        if isinstance(s, (ast.Pass, ast.Global, ast.Nonlocal, ast.Import, ast.ImportFrom)):
            return st
        if isinstance(s, ast.Assert):
            self.expr(s.test, st)
            return st
        if isinstance(s, ast.Delete):
            for t in s.targets:
                if isinstance(t, ast.Subscript):
                    base = self.expr(t.value, st)
                    self._effect("delitem", s, base, st, target=("item", base, self.slice_(t.slice, st)))
                elif isinstance(t, ast.Name):
                    st.env.pop(t.id, None)
            return st
        if hasattr(ast, "Match") and isinstance(s, ast.Match):
            chain = _desugar_match(s)
            if chain is not None:
                st.env["__match_subject__"] = self.expr(s.subject, st)
                return self.block(chain, st)
        if isinstance(s, ast.With):
            self.unsupported.append(s)
            for it in s.items:
                v = self.expr(it.context_expr, st)
                if it.optional_vars is not None:
                    self.assign(it.optional_vars, ("enter", v), st, s)
            return self.block(s.body, st)
        self.unsupported.append(s)
        for n in ast.walk(s):
            if isinstance(n, ast.Name) and isinstance(n.ctx, ast.Store):
                st.env[n.id] = top(f"unsupported {type(s).__name__}")
        return st

    def assign(self, t, v, st: State, stmt, aug=False):
        if isinstance(t, ast.Name):
            st.env[t.id] = v
        elif isinstance(t, (ast.Tuple, ast.List)):
            for i, e in enumerate(t.elts):
                if isinstance(e, ast.Starred):
                    self.assign(e.value, top("starred"), st, stmt)
                else:
                    self.assign(e, self.proj(v, i), st, stmt)
        elif isinstance(t, ast.Attribute):
            base = self.expr(t.value, st)
            if base == ("self",):
                st.env["self." + t.attr] = v
                self._effect("aug" if aug else "store", stmt, v, st, target=("self", t.attr))
            else:
                self._effect("aug" if aug else "store", stmt, v, st, target=("attr", base, t.attr))
        elif isinstance(t, ast.Subscript):
            base = self.expr(t.value, st)
            key = self.slice_(t.slice, st)
            if key[0] == "bin" and key[1] == "-" and is_const(key[3]) and isinstance(key[3][1], int) and key[3][1] > 0 and key[2][0] == "call" and key[2][2] == ("builtin", "len") and key[2][3] == (base,):
                key = const(-key[3][1])  # L[len(L) - k] = ... addresses the k-th element from the end
            self._effect("setitem", stmt, v, st, target=("item", base, key))
            # local container update is tracked symbolically as an opaque new version
            if isinstance(t.value, ast.Name):
                st.env[t.value.id] = ("upd", base, key, v)
            elif isinstance(t.value, ast.Attribute) and self.expr(t.value.value, st) == ("self",):
                st.env["self." + t.value.attr] = ("upd", base, key, v)
        else:
            self.unsupported.append(t)

    def proj(self, v, i):
        if v[0] == "tuple" and i < len(v[1]):
            return v[1][i]
        if is_const(v) and isinstance(v[1], (tuple, list)) and i < len(v[1]):
            return self.lift(v[1][i])
        if v[0] == "gval" and isinstance(v[1].v, (list, tuple)) and i < len(v[1].v):
            return self.lift(v[1].v[i])
        if v[0] == "ite":
            return self.ite(v[1], self.proj(v[2], i), self.proj(v[3], i))
        return self._ov(("proj", v, i))

    def cond(self, c):
        """Normalise a term used as a condition: ite(c, K1, K2) with constant arms of different
        truthiness is c (or its negation); `not not c` is c."""
        while True:
            if c[0] == "ite" and c in self._alts:
                r = self._sel(c, bool)
                if r is not None:
                    return r
            if c[0] == "ite" and is_const(c[2]) and is_const(c[3]):
                try:
                    a, b = bool(c[2][1]), bool(c[3][1])
                except Exception:
                    return c
                if a and not b:
                    c = c[1]
                    continue
                if b and not a:
                    c = self.negate(c[1])
                    continue
                return const(a)
            if c[0] == "ite" and _some_const_leaf(c) and not _const_leaves(c):
                # a flag with a default (`bad = False; if v: bad = bool(x)` then `if bad:`): decided on the constant alternatives, the truth of the
                # others on theirs
                return self._bool_tree(c, bool, other=lambda t: self.cond(t[3][0] if t[0] == "call" and t[2] == ("builtin", "bool") and len(t[3]) == 1 and not t[4] else t))
            if c[0] == "ite" and _ite_depth({"c": c}) <= 4 and _cond_leaves(c):
                # a test kept in a variable and refined on one branch (`ok = a == K; if ok: ok = b == 0` then `if ok:`): the alternatives are
                # conditions themselves
                return self._bool_tree(c, bool, other=lambda t: self.cond(t))
            if c[0] == "truth":
                c = c[1]
                continue
            return c

    def negate(self, c):
        if c[0] == "cmp":
            return ("cmp", NEGATE[c[1]], c[2], c[3])
        if c[0] == "not":
            return c[1]
        if c[0] == "sel":
            return ("sel", c[1], frozenset(range(len(c[1]))) - c[2])
        if is_const(c):
            try:
                return const(not c[1])
            except Exception:
                pass
        return ("not", c)

    def if_(self, s, st: State) -> State:
        c = self.cond(self.expr(s.test, st))
        b = self.truth(c)
        # an `if` without else in tail position of a loop body: its untaken side falls off the end of the body
        tail_else = bool(not s.orelse and self._tail_stack and self._loops and self._tail_stack[-1][0] == self._loops[-1] and id(s) in self._tail_stack[-1][2])
        if b is True:
            return self.block(s.body, st)
        if b is False:
            if tail_else:
                self._tail_end(st)
            return self.block(s.orelse, st)
        s1 = st.copy()
        s1.assume(c, True)
        s2 = st.copy()
        s2.assume(c, False)
        s1 = self.block(s.body, s1)
        s2 = self.block(s.orelse, s2)
        if tail_else and not s2.dead:
            self._tail_end(s2)
        return self.merge(c, s1, s2, st.dnf)

    def merge(self, c, s1: State, s2: State, base_dnf) -> State:
        if s1.dead and s2.dead:
            d = s1.dead if s1.dead == s2.dead else "mixed"
            return State(s1.env, base_dnf, d)
        if s1.dead:
            return State(s2.env, s2.dnf, None)
        if s2.dead:
            return State(s1.env, s1.dnf, None)
        env = {}
        for k in set(s1.env) | set(s2.env):
            a, b = s1.env.get(k, ("undef", k)), s2.env.get(k, ("undef", k))
            env[k] = a if a == b else self.ite(c, a, b)
        return State(env, dnf_or(s1.dnf, s2.dnf), None)

    def ite(self, c, a, b):
        if a == b:
            return a
        t = self.truth(c)
        if t is True:
            return a
        if t is False:
            return b
        return ("ite", c, a, b)

    # ---- loops: a variable that no continuing path of the body changes has its entry value at every iteration
    def _mark(self):
        return (len(self.effects), self.uid, {k: len(v) for k, v in self._loop_ends.items()}, {k: len(v) for k, v in self._tail_ends.items()},
                {k: len(v) for k, v in self._snapshots.items()}, len(self.unsupported), [len(fr[1]) for fr in self._inline_stack])

    def _rollback(self, mark):
        ne, uid, le, te, sn, nu, inl = mark
        del self.effects[ne:]
        self.uid = uid
        for d, lens in ((self._loop_ends, le), (self._tail_ends, te), (self._snapshots, sn)):
            for k in list(d):
                if k not in lens:
                    del d[k]
                else:
                    del d[k][lens[k]:]
        del self.unsupported[nu:]
        for fr, n in zip(self._inline_stack, inl):
            del fr[1][n:]

    def loop(self, s, st: State) -> State:
        mark, st0 = self._mark(), st.copy()
        self._stable_found = None
        out = self._loop_once(s, st, None)
        found = self._stable_found
        self._stable_found = None
        if found:
            lid, pins = found
            # second pass with those variables held at their entry values; the premise is re-established on that pass
            self._rollback(mark)
            out = self._loop_once(s, st0.copy(), pins)
            again = self._stable_found
            self._stable_found = None
            if again is None or again[0] != lid or not (set(pins) <= set(again[1])):
                self._rollback(mark)
                out = self._loop_once(s, st0, {})
                self._stable_found = None
        return out

    def _loop_once(self, s, st: State, pins) -> State:
        if isinstance(s, ast.While):
            d = _counter_while(s, self.func.node if self.func is not None else None, st.env)
            if d is None:
                d = _probe_while(s, self.func.node if self.func is not None else None, st.env)
            if d is not None:
                s = d
        lid = f"{self._lid_prefix}L{getattr(s, 'lineno', 0)}"
        assigned = _assigned_names(s.body) | (_assigned_names([ast.Assign(targets=[s.target], value=ast.Constant(0))]) if isinstance(s, ast.For) else set())
        fields = _assigned_fields(s.body, self.selfname)
        calls_self = _calls_self_methods(s.body, self.selfname, st.env)
        info = {"node": s, "assigned": assigned, "fields": fields, "unrolled": None}
        self.loop_info[lid] = info
        if isinstance(s, ast.For):
            it = self.expr(s.iter, st)
            info["iter"] = it
            seq = self.concrete_seq(it)
            do_unroll = self.unroll(s, seq) if callable(self.unroll) else (self.unroll and seq is not None and len(seq) <= self.unroll)
            single = it[1][0] if it[0] in ("tuple", "list") and len(it[1]) == 1 and it[1][0][0] != "star" else (self.lift(seq[0]) if seq is not None and len(seq) == 1 else None)
            if single is not None and not do_unroll:
                # a loop over exactly one element is its body, once (whatever the unrolling policy)
                seq, do_unroll = [_Term(single)], True
            if seq is not None and 0 < len(seq) <= 8 and _is_search_loop(s) and (do_unroll or not callable(self.unroll)):
                # `for x in CONST: [...]; if test(x): ...; break` (+ else): an if / elif chain over the constant elements
                info["unrolled"] = len(seq)
                return self._search_chain(s, list(seq), 0, st)
            if seq is not None and do_unroll and not _has_break_continue(s.body):
                info["unrolled"] = len(seq)
                for v in seq:
                    self.assign(s.target, self.lift(v), st, s)
                    st = self.block(s.body, st)
                    if st.dead:
                        return st
                return self.block(s.orelse, st) if s.orelse else st
            if seq is not None and do_unroll and len(seq) <= 8 and _has_break_continue(s.body):
                # unrolled with its jumps: a `continue` joins the entry of the next element, a `break` joins the exit of the loop (past the else clause)
                info["unrolled"] = len(seq)
                base_dnf, exits, cur = st.dnf, [], st
                for k, v in enumerate(seq):
                    if cur.dead:
                        break
                    sub = f"{lid}#{k}"
                    entry_dnf = cur.dnf
                    self._jump_targets.append(sub)
                    self.assign(s.target, self.lift(v), cur, s)
                    cur = self.block(s.body, cur)
                    self._jump_targets.pop()
                    for j, (kind, e) in enumerate(self._loop_ends.pop(sub, [])):
                        if kind == "continue":
                            cur = self.merge(("continued", sub, j), State(e.env, e.dnf, None), cur, entry_dnf)
                        else:
                            exits.append((sub, j, e))
                if cur.dead in ("break", "continue"):
                    cur = State(cur.env, cur.dnf, "left" if exits else None)
                if s.orelse and not cur.dead:
                    cur = self.block(s.orelse, cur)
                for sub, j, e in exits:
                    cur = self.merge(("left-by-break", sub, j), State(e.env, e.dnf, None), cur, base_dnf)
                return cur
        test_names = {n_.id for n_ in ast.walk(s.test) if isinstance(n_, ast.Name)} if isinstance(s, ast.While) else set()
        test_fields = any(isinstance(n_, ast.Attribute) for n_ in ast.walk(s.test)) if isinstance(s, ast.While) else False
        if isinstance(s, ast.While) and self.unroll and not s.orelse and not _has_break_continue(s.body) and (test_fields or (test_names & assigned)):
            # (a test that nothing in the body can change - `while True:` left by return - has no trip count to find)
            # constant-trip-count while loop: unroll as long as the test folds to a constant
            limit = self.unroll if isinstance(self.unroll, int) and not isinstance(self.unroll, bool) else 64
            trial = st.copy()
            mark_effects, mark_uid = len(self.effects), self.uid
            n, okk = 0, True
            while True:
                t = self.truth(self.cond(self.expr(s.test, trial)))
                if t is None or n > limit or len(self.effects) - mark_effects > 3000 or len(trial.dnf) > 128:
                    # not a constant trip count (or one whose unrolling is out of proportion: a test that stays true is an endless loop, not a count)
                    okk = False
                    break
                if t is False:
                    break
                trial = self.block(s.body, trial)
                n += 1
                if trial.dead or _ite_depth(trial.env) > 24:
                    okk = False
                    break
            if okk and (not callable(self.unroll) or self.unroll(s, list(range(n)))):
                info["unrolled"] = n
                return trial
            del self.effects[mark_effects:]
            self.uid = mark_uid
        # havoc loop-carried state
        pre = st.copy()
        st = st.copy()
        # a loop-carried variable that enters the loop as a tuple display of known length is carried component by component (`cursor = (offset, index)`
        # threaded through the iterations is `offset`, `index` threaded separately)
        split = {n: len(pre.env[n][1]) for n in assigned if n in pre.env and pre.env[n][0] == "tuple" and 1 < len(pre.env[n][1]) <= 4 and "." not in n}
        for n, k in split.items():
            for i in range(k):
                pre.env[f"{n}.{i}"] = pre.env[n][1][i]
        info["split"] = split
        for n in assigned:
            st.env[n] = ("loop", lid, n)
        for n, k in split.items():
            st.env[n] = ("tuple", tuple(("loop", lid, f"{n}.{i}") for i in range(k)))
            info["assigned"] = set(info["assigned"]) | {f"{n}.{i}" for i in range(k)}
        for f in fields:
            st.env["self." + f] = ("loop", lid, "self." + f)
        if calls_self:
            for k in list(st.env):
                if k.startswith("self.") and k[5:] not in self.frozen_fields and k != "self.*":
                    st.env[k] = ("loop", lid, k)
            st.env["self.*"] = ("in", lid)
        for n_, v_ in (pins or {}).items():
            if isinstance(v_, tuple) and v_ and v_[0] == "derived-len":
                # a local that mirrors the length of another loop-carried value (`n = len(buf)` before the loop and after every change of buf)
                st.env[n_] = ("call", self._new_uid(), ("builtin", "len"), (st.env.get(v_[1], ("field", v_[1][5:]) if v_[1].startswith("self.") else ("undef", v_[1])),), ())
            else:
                st.env[n_] = v_
        for fl in getattr(s, "_sa_flags", None) or ([s._sa_flag_loop] if getattr(s, "_sa_flag_loop", None) else []):
            # a flag loop rewritten to its break form (threadflags): the flag has its continue value at every entry to the head
            st.env[fl[0]] = const(fl[1])
            info["flag"] = fl
        info["pre"] = pre.env
        self._loops.append(lid)
        self._jump_targets.append(lid)
        self._tail_stack.append((lid,) + _tail_positions(s.body))
        self._head_mark[lid] = (len(self.effects), getattr(s, "_sa_from_while", s), len(self._inline_stack), len(self._open_stmts))
        self._iter_dirty[lid] = False
        if isinstance(s, ast.While):
            c = self.expr(s.test, st)
            info["test"] = c
            body_st = st.copy()
            if self.truth(c) is None:
                body_st.assume(c, True)
        else:
            body_st = st.copy()
            self.assign(s.target, ("elem", info.get("iter", TOP), lid), body_st, s)
        body_st = self.block(s.body, body_st)
        for n, k in split.items():
            for st_ in [body_st] + [x for _, x in self._loop_ends.get(lid, [])] + list(self._tail_ends.get(lid, [])):
                if n in st_.env:
                    for i in range(k):
                        st_.env[f"{n}.{i}"] = self.proj(st_.env[n], i)
        info["body_end"] = body_st.env
        info["body_dead"] = body_st.dead
        info["body_end_dnf"] = body_st.dnf
        body_st.seq = len(self.effects)
        info["body_end_state"] = body_st
        info["ends"] = self._loop_ends.get(lid, [])
        info["tail_ends"] = self._tail_ends.get(lid, [])
        self._loops.pop()
        self._jump_targets.pop()
        self._tail_stack.pop()
        if pins != {}:
            # variables written only on paths that leave the loop: every continuing end (fall-through, continue) still has the value of the head
            cont = ([] if body_st.dead else [body_st]) + [x for k_, x in info["ends"] if k_ == "continue"]
            stable = {}
            for n_ in assigned:
                if "." in n_ or n_ in split:
                    continue
                pv = pre.env.get(n_)
                hv = (pins or {}).get(n_, ("loop", lid, n_))
                if pv is not None and _const_display(pv) and (pins is None or n_ in pins) and all(e_.env.get(n_) == hv for e_ in cont):
                    stable[n_] = pv
            def len_arg(t_):
                return t_[3][0] if isinstance(t_, tuple) and t_ and t_[0] == "call" and t_[2] == ("builtin", "len") and len(t_[3]) == 1 and not t_[4] else None

            def val_of(env_, w_):
                return env_.get(w_, ("field", w_[5:]) if w_.startswith("self.") else None)

            for n_ in assigned:
                if "." in n_ or n_ in split or n_ in stable or (pins is not None and n_ not in pins):
                    continue
                a_ = len_arg(pre.env.get(n_))
                if a_ is None:
                    continue
                for w_ in sorted(set(assigned) | {"self." + f_ for f_ in fields}):
                    if w_ != n_ and val_of(pre.env, w_) == a_ and all(len_arg(e_.env.get(n_)) is not None and len_arg(e_.env.get(n_)) == val_of(e_.env, w_) for e_ in cont):
                        stable[n_] = ("derived-len", w_)
                        break
            if isinstance(s, ast.For):
                for t_ in ast.walk(s.target):
                    if isinstance(t_, ast.Name):
                        stable.pop(t_.id, None)
            self._stable_found = (lid, stable) if stable else None
            info["pinned"] = dict(pins or {})
        out = State(dict(st.env), pre.dnf, None)
        for n in assigned:
            out.env[n] = ("loopout", lid, n)
        for n, k in split.items():
            out.env[n] = ("tuple", tuple(("loopout", lid, f"{n}.{i}") for i in range(k)))
        for f in fields:
            out.env["self." + f] = ("loopout", lid, "self." + f)
        if calls_self:
            for k in list(out.env):
                if k.startswith("self.") and k[5:] not in self.frozen_fields and k != "self.*":
                    out.env[k] = ("loopout", lid, k)
            out.env["self.*"] = ("out", lid)
        if isinstance(s, ast.While) and self.truth(info["test"]) is None and not _has_break(s.body):
            out.assume(info["test"], False)
        brks_ = [st_ for k_, st_ in info["ends"] if k_ == "break"]
        if isinstance(s, ast.While) and self.truth(info["test"]) is True and len(brks_) == 1 and not s.orelse:
            # `while True:` left by its one break: what held at the break holds after the loop (the loop-carried names in it stand for the values
            # of the final iteration, as they do in the negated test of a conditioned loop)
            out.dnf = brks_[0].dnf
        if s.orelse and _has_break(s.body):
            # the else clause runs only when the loop ends because its test fails; a break skips it
            normal = State(dict(out.env), out.dnf, None)
            if isinstance(s, ast.While) and self.truth(info["test"]) is None:
                normal.assume(info["test"], False)
            after_else = self.block(s.orelse, normal)
            brk_dnf = ()
            for k_, st_ in info["ends"]:
                if k_ == "break":
                    brk_dnf = dnf_or(brk_dnf, st_.dnf) if brk_dnf else st_.dnf
            broken = State(dict(out.env), brk_dnf or pre.dnf, None)
            out = broken if after_else.dead else self.merge(("left-by-break", lid), broken, after_else, pre.dnf)
        elif s.orelse:
            out = self.block(s.orelse, out)
        # a loop whose body always returns/raises on every path and `while True` without break never falls through
        if isinstance(s, ast.While) and self.truth(info["test"]) is True and not _has_break(s.body):
            out.dead = "return"
        return out

    def _search_chain(self, s, seq, k, st: State) -> State:
        if k == len(seq):
            return self.block(s.orelse, st) if s.orelse else st
        self.assign(s.target, self.lift(seq[k]), st, s)
        st = self.block(s.body[:-1], st)
        if st.dead:
            return st
        last = s.body[-1]
        c = self.cond(self.expr(last.test, st))
        b = self.truth(c)
        if b is True:
            return self.block(last.body[:-1], st)
        if b is False:
            return self._search_chain(s, seq, k + 1, st)
        s1 = st.copy()
        s1.assume(c, True)
        s2 = st.copy()
        s2.assume(c, False)
        s1 = self.block(last.body[:-1], s1)
        s2 = self._search_chain(s, seq, k + 1, s2)
        return self.merge(c, s1, s2, st.dnf)

    def try_(self, s, st: State) -> State:
        tid = f"{self._lid_prefix}T{s.lineno}"
        pre = st.copy()
        self._try_depth[tid] = len(self._inline_stack)
        self._trys.append(tid)
        body = self.block(s.body, st.copy())
        self._trys.pop()
        if s.orelse and not body.dead:
            body = self.block(s.orelse, body)
        outs = [body]
        assigned = _assigned_names(s.body)
        fields = _assigned_fields(s.body, self.selfname)
        snaps = self._snapshots.get(tid, [])
        for i, h in enumerate(s.handlers):
            hs = pre.copy()
            for n in assigned | {"self." + f for f in fields}:
                vals = []
                for sn in snaps:
                    v = sn.get(n, ("field", n[5:]) if n.startswith("self.") else ("undef", n))
                    if v not in vals:
                        vals.append(v)
                if not vals:
                    vals = [pre.env.get(n, ("undef", n))]
                hs.env[n] = vals[0] if len(vals) == 1 else ("maybe", tid, tuple(vals))
            if h.name:
                hs.env[h.name] = ("exc", tid, norm(h.type) if h.type else "BaseException")
            hs.assume(("caught", tid, i, norm(h.type) if h.type else ""), True)
            prev = self._handler
            self._handler = h
            hs = self.block(h.body, hs)
            self._handler = prev
            outs.append(hs)
        if s.finalbody:
            self.unsupported.append(s)
        live = [o for o in outs if not o.dead]
        if not live:
            return State(pre.env, pre.dnf, outs[0].dead or "raise")
        res = live[0]
        for i, o in enumerate(live[1:], 1):
            res = self.merge(("exc-path", tid, i), o, res, pre.dnf)
        if len(live) > 1:
            res.dnf = pre.dnf
        return res

    # ------------------------------------------------------------------ expressions
    def lift(self, v):
        """Python constant -> term."""
        if isinstance(v, _Term):
            return v.t
        if isinstance(v, Unknown):
            return top(v.why)
        if isinstance(v, Ref):
            return ("func", f"{v.module}.{v.name}") if v.kind == "function" else ("class", f"{v.module}.{v.name}")
        if isinstance(v, (dict, list, set)):
            return ("gval", _Box(v))
        if isinstance(v, (type({}.keys()), type({}.values()), type({}.items()))):
            return const(_View(type(v).__name__, v))  # a dict view as a constant that compares by content
        if isinstance(v, tuple):
            try:
                hash(v)
            except TypeError:
                return ("gval", _Box(v))  # a tuple holding lists / dicts: boxed, so that terms stay hashable
        return const(v)

    def truth(self, c):
        if c[0] == "nonnull":
            return True if len(c) > 2 and c[2] == "truthy" else None
        if is_const(c):
            try:
                return bool(c[1])
            except Exception:
                return None
        if c[0] == "gval":
            return bool(c[1].v)
        if c[0] == "sel":
            return False if not c[2] else (True if len(c[2]) == len(c[1]) else None)
        return None

    def _sel(self, t, pred):
        """Condition `pred(result)` over the alternatives recorded for the gated constant t (None if none are recorded)."""
        alts = self._alts.get(t)
        if alts is None:
            return None
        chosen = set()
        for i, (_, v) in enumerate(alts):
            try:
                if pred(v[1]):
                    chosen.add(i)
            except Exception:
                return None
        return ("sel", alts, frozenset(chosen))

    def _locals_of(self, fi):
        cached = getattr(fi.node, "_sa_locals", None)
        if cached is not None:
            return cached
        cache, k = {}, 0
        if True:
            names = set()
            for n in _walk_no_nested_funcs(fi.node):
                if isinstance(n, ast.Name) and isinstance(n.ctx, (ast.Store, ast.Del)):
                    names.add(n.id)
                elif isinstance(n, ast.ExceptHandler) and n.name:
                    names.add(n.name)
            glob = {x for n in _walk_no_nested_funcs(fi.node) if isinstance(n, (ast.Global, ast.Nonlocal)) for x in n.names}
            cache[k] = names - glob
            fi.node._sa_locals = cache[k]
        return cache[k]

    def concrete_seq(self, t):
        if is_const(t) and isinstance(t[1], (range, tuple, bytes, str)):
            return list(t[1])
        if t[0] == "gval" and isinstance(t[1].v, (list, dict, tuple)):
            return list(t[1].v)
        if t[0] in ("tuple", "list") and all(is_const(x) for x in t[1]):
            return [x[1] for x in t[1]]
        return None

    def slice_(self, sl, st):
        if isinstance(sl, ast.Slice):
            lo = self.expr(sl.lower, st) if sl.lower else const(None)
            hi = self.expr(sl.upper, st) if sl.upper else const(None)
            step = self.expr(sl.step, st) if sl.step else const(None)
            return ("slicespec", lo, hi, step)
        v = self.expr(sl, st)
        if is_const(v) and isinstance(v[1], slice):
            return ("slicespec", const(v[1].start), const(v[1].stop), const(v[1].step))  # x[SLICE] with a constant slice object is x[a:b:c]
        return v

    def expr(self, e, st: State):
        return self._ov(self._expr(e, st))

    def _expr(self, e, st: State):
        if e is None:
            return const(None)
        if isinstance(e, ast.Constant):
            return const(e.value)
        if isinstance(e, ast.Name):
            if e.id in st.env:
                v = st.env[e.id]
                if v[0] == "ite":
                    v = _ite_under(v, st.guards)  # alternatives the path condition has already excluded are dropped
                return v
            if e.id in self.modenv:
                if e.id in _written_globals(self.ce.repo):
                    # a module-level object some function of the package writes into (item store, mutating method, `global` rebinding): what it holds
                    # when this code runs depends on history - not the value it had after import
                    return self._ov(("global", e.id, self._new_uid()))
                return self.lift(self.modenv[e.id]) if not isinstance(self.modenv[e.id], Unknown) else ("extern", e.id)
            if e.id in ("True", "False", "None"):
                return const({"True": True, "False": False, "None": None}[e.id])
            if e.id in self._locals_of(self.func):
                # a local of this function that no statement on the path so far has bound: UnboundLocalError at run time
                self.undef_reads.append(e)
                return ("undef", e.id)
            return ("builtin", e.id)
        if isinstance(e, ast.Attribute):
            base = self.expr(e.value, st)
            if base == ("self",):
                k = "self." + e.attr
                if k in st.env:
                    return st.env[k]
                if "self.*" in st.env and e.attr not in self.frozen_fields:
                    return ("fieldv", e.attr, st.env["self.*"])  # field value after possible modification by a callee
                return ("field", e.attr)
            return ("attr", base, e.attr)
        if isinstance(e, ast.Subscript):
            base = self.expr(e.value, st)
            idx = self.slice_(e.slice, st)
            if self.on_index is not None and idx[0] != "slicespec":
                self.on_index(e, base, idx, st, tuple(self._trys), self._handler)
            return self.index(base, idx)
        if isinstance(e, ast.BinOp):
            return self.binop(_BIN[type(e.op)][0], self.expr(e.left, st), self.expr(e.right, st))
        if isinstance(e, ast.UnaryOp):
            sym, fn = _UN[type(e.op)]
            v = self.expr(e.operand, st)
            if is_const(v):
                try:
                    return const(fn(v[1]))
                except Exception:
                    return top("unary raises")
            if sym == "not":
                if v[0] == "ite" and v in self._alts:
                    r = self._sel(v, lambda k: not k)
                    if r is not None:
                        return r
                if v[0] == "sel":
                    return self.negate(v)
                if v[0] == "ite" and _const_leaves(v):
                    return self._bool_tree(v, lambda k: not k)
                if v[0] == "cmp":
                    return ("cmp", NEGATE[v[1]], v[2], v[3])
                if v[0] == "not":
                    return ("truth", v[1])
                return ("not", v)
            return ("un", sym, v)
        if isinstance(e, ast.BoolOp):
            op = "and" if isinstance(e.op, ast.And) else "or"
            vals = []
            for x in e.values:
                v = self.expr(x, st)
                t = self.truth(v)
                if t is not None:
                    if (op == "and" and not t) or (op == "or" and t):
                        if not vals:
                            return v
                        vals.append(v)
                        break
                    continue  # neutral element (value position at the end is approximated)
                vals.append(v)
            if not vals:
                return const(op == "and")
            if len(vals) == 1:
                return vals[0]
            if op == "or" and all(v[0] == "cmp" and v[1] == "==" and v[2] == vals[0][2] and is_const(v[3]) for v in vals):
                return self.cmp("in", vals[0][2], const(tuple(v[3][1] for v in vals)))  # x == a or x == b or ... is x in (a, b, ...)
            if op == "and" and all(v[0] == "cmp" and v[1] == "!=" and v[2] == vals[0][2] and is_const(v[3]) for v in vals):
                return self.cmp("not in", vals[0][2], const(tuple(v[3][1] for v in vals)))
            return (op, tuple(vals))
        if isinstance(e, ast.Compare):
            left = self.expr(e.left, st)
            parts = []
            for op, r in zip(e.ops, e.comparators):
                right = self.expr(r, st)
                parts.append(self.cmp(_CMP[type(op)][0], left, right))
                left = right
            if len(parts) == 1:
                return parts[0]
            if all(is_const(p) for p in parts):
                return const(all(p[1] for p in parts))
            if any(is_const(p) and not p[1] for p in parts):
                return const(False)
            parts = [p for p in parts if not is_const(p)]
            return parts[0] if len(parts) == 1 else ("and", tuple(parts))
        if isinstance(e, ast.IfExp):
            c = self.cond(self.expr(e.test, st))
            t = self.truth(c)
            if t is True:
                return self.expr(e.body, st)
            if t is False:
                return self.expr(e.orelse, st)
            s1, s2 = st.copy(), st.copy()
            s1.assume(c, True)
            s2.assume(c, False)
            return self.ite(c, self.expr(e.body, s1), self.expr(e.orelse, s2))
        if isinstance(e, ast.Tuple):
            items = tuple(self.expr(x, st) for x in e.elts)
            if all(is_const(i) for i in items):
                return const(tuple(i[1] for i in items))
            return ("tuple", items)
        if isinstance(e, ast.List):
            return ("list", tuple(self.expr(x, st) for x in e.elts), self._new_uid())
        if isinstance(e, ast.Dict):
            ks = tuple(self.expr(k, st) if k is not None else ("**",) for k in e.keys)
            vs = tuple(self.expr(v, st) for v in e.values)
            return ("dict", ks, vs, self._new_uid())
        if isinstance(e, ast.Set):
            return ("set", tuple(self.expr(x, st) for x in e.elts), self._new_uid())
        if isinstance(e, ast.JoinedStr):
            parts = []
            for v in e.values:
                if isinstance(v, ast.Constant):
                    parts.append(const(v.value))
                else:
                    val = self.expr(v.value, st)
                    spec = ""
                    if v.format_spec is not None:
                        sp = self.expr(v.format_spec, st)
                        spec = sp[1] if is_const(sp) else ("dyn", sp)
                    if val[0] == "fstr" and spec == "" and v.conversion in (-1, ord("s")):
                        parts.extend(val[1])  # an f-string interpolated unformatted into another: splice its parts
                    elif is_const(val) and isinstance(val[1], str) and spec == "" and v.conversion in (-1, ord("s")):
                        parts.append(val)
                    else:
                        parts.append(("fmt", val, spec, v.conversion))
            return _mk_fstr(parts)
        if isinstance(e, ast.Call):
            return self.call(e, st)
        if isinstance(e, ast.Starred):
            return ("star", self.expr(e.value, st))
        if isinstance(e, (ast.ListComp, ast.SetComp, ast.GeneratorExp, ast.DictComp)):
            if isinstance(e, ast.ListComp) and len(e.generators) == 1 and not e.generators[0].is_async:
                # a list comprehension over a short sequence of known length (a constant range / tuple, a list display) is the display of its elements
                g0 = e.generators[0]
                src0 = self.expr(g0.iter, st.copy())
                seq0 = self.concrete_seq(src0)
                items = [self.lift(v) for v in seq0] if seq0 is not None and not isinstance(seq0, (str, bytes)) else (list(src0[1]) if src0[0] in ("list", "tuple") else None)
                if items is not None and len(items) <= 8:
                    out_items, okk = [], True
                    for v in items:
                        inner = st.copy()
                        self.assign(g0.target, v, inner, e)
                        keep = True
                        for cnd in g0.ifs:
                            b = self.truth(self.cond(self.expr(cnd, inner)))
                            if b is None:
                                okk = False
                                break
                            keep = keep and b
                        if not okk:
                            break
                        if keep:
                            out_items.append(self.expr(e.elt, inner))
                    if okk:
                        return ("list", tuple(out_items), self._new_uid())
            if isinstance(e, ast.DictComp) and len(e.generators) == 1 and not e.generators[0].is_async:
                # {k: v for x in S if c} is  d = {}; for x in S: if c: d[k] = v  - evaluated as those statements (the comprehension's variable stays local)
                g0 = e.generators[0]
                dn = f"__dictcomp_{e.lineno}_{e.col_offset}"
                store = ast.Assign(targets=[ast.Subscript(value=ast.Name(id=dn, ctx=ast.Load()), slice=e.key, ctx=ast.Store())], value=e.value)
                body = [store]
                if g0.ifs:
                    test = g0.ifs[0] if len(g0.ifs) == 1 else ast.BoolOp(op=ast.And(), values=list(g0.ifs))
                    body = [ast.If(test=test, body=[store], orelse=[])]
                loop = ast.For(target=g0.target, iter=g0.iter, body=body, orelse=[], type_comment=None)
                init = ast.Assign(targets=[ast.Name(id=dn, ctx=ast.Store())], value=ast.Dict(keys=[], values=[]))
                for n_ in (init, loop):
                    ast.copy_location(n_, e)
                    ast.fix_missing_locations(n_)
                tnames = {n.id for n in ast.walk(g0.target) if isinstance(n, ast.Name)}
                saved = {k: st.env.get(k) for k in tnames}
                st2 = self.block([init, loop], st)
                val = st2.env.pop(dn, top("dict comprehension"))
                for k, v in saved.items():
                    if v is None:
                        st2.env.pop(k, None)
                    else:
                        st2.env[k] = v
                st.env, st.dnf, st.dead = st2.env, st2.dnf, st2.dead
                return val
            # evaluate the source iterables for their effects; the value is opaque
            inner = st.copy()
            lid = f"{self._lid_prefix}C{e.lineno}"
            conds, it = [], TOP
            for g in e.generators:
                it = self.expr(g.iter, inner)
                src = self.loop_info.get(it[3]) if (it[0] == "comp" and len(it) == 4 and it[1] in ("ListComp", "GeneratorExp")) else None
                if src is not None and src.get("comp") and it[2] == ("elem", src.get("iter"), it[3]) and isinstance(g.target, ast.Name):
                    # the source is itself a comprehension that only filters ([x for x in X if c]): this one ranges over X under the same filter
                    old_e, it = it[2], src["iter"]
                    for c0 in src.get("conds", []):
                        c1 = _subst_term(c0, old_e, ("elem", it, lid))
                        conds.append(c1)
                        if self.truth(c1) is None:
                            inner.assume(c1, True)
                if isinstance(g.target, (ast.Tuple, ast.List)) and all(isinstance(n, (ast.Name, ast.Tuple, ast.List, ast.Store)) for n in ast.walk(g.target)):
                    self.assign(g.target, ("elem", it, lid), inner, e)  # `for a, b in X`: a, b are the components of the element
                else:
                    for n in ast.walk(g.target):
                        if isinstance(n, ast.Name):
                            inner.env[n.id] = ("elem", it, lid)
            self._loops.append(lid)
            for g in e.generators:
                for cnd in g.ifs:  # the filter conditions guard the element expression
                    c = self.cond(self.expr(cnd, inner))
                    conds.append(c)
                    if self.truth(c) is None:
                        inner.assume(c, True)
            self._loops.pop()
            if len(e.generators) == 1:
                self.loop_info[lid] = {"node": e, "assigned": set(), "fields": set(), "unrolled": None, "iter": it, "pre": {}, "body_end": {}, "comp": True, "conds": conds}
            self._loops.append(lid)
            if isinstance(e, ast.DictComp):
                body = (self.expr(e.key, inner), self.expr(e.value, inner))
            else:
                body = self.expr(e.elt, inner)
            self._loops.pop()
            return ("comp", type(e).__name__, body, lid)
        if isinstance(e, ast.Lambda):
            self.unsupported.append(e)
            return top("lambda")
        if isinstance(e, ast.NamedExpr):
            v = self.expr(e.value, st)
            st.env[e.target.id] = v
            return v
        self.unsupported.append(e)
        return top(type(e).__name__)

    def index(self, base, idx):
        if idx[0] == "bin" and idx[1] == "-" and is_const(idx[3]) and isinstance(idx[3][1], int) and idx[3][1] > 0 and idx[2][0] == "call" and idx[2][2] == ("builtin", "len") and idx[2][3] == (base,):
            idx = const(-idx[3][1])  # counted from the end
        if idx[0] == "elem" and idx[1] == base and base[0] == "gval" and isinstance(base[1].v, dict):
            # D[k] for k ranging over the constant dict D itself is the corresponding element of D.values()
            return ("elem", self.lift(base[1].v.values()), idx[2])
        if base[0] == "upd" and base[1][0] in ("dict", "upd"):
            # reading back a key of a dict that was just built item by item: the value stored last under that key
            if idx == base[2]:
                return base[3]
            if is_const(idx) and is_const(base[2]):
                return self.index(base[1], idx)
        if idx[0] == "ite" and is_const(idx[2]) and is_const(idx[3]):
            return self.ite(idx[1], self.index(base, idx[2]), self.index(base, idx[3]))
        if idx[0] == "cmp" and base[0] != "gval" and not is_const(base):
            # x[cond] with a boolean index selects x[1] / x[0]
            return self.ite(idx, self.index(base, const(1)), self.index(base, const(0)))
        if idx[0] == "slicespec":
            if is_const(base) and all(is_const(x) for x in idx[1:]):
                try:
                    return const(base[1][idx[1][1] : idx[2][1] : idx[3][1]])
                except Exception:
                    return top("slice raises")
            return ("slice", base, idx[1], idx[2], idx[3])
        if is_const(idx) and isinstance(idx[1], int) and not isinstance(idx[1], bool) and idx[1] >= 0 and base[0] == "bin" and base[1] == "+":
            # (a + b)[k] with len(a) known: a[k] or b[k - len(a)]
            la = self._static_len(base[2])
            if la is not None:
                return self.index(base[2], idx) if idx[1] < la else self.index(base[3], const(idx[1] - la))
        if is_const(idx):
            if is_const(base):
                try:
                    return self.lift(base[1][idx[1]])
                except Exception:
                    return ("idx", base, idx)
            if base[0] == "gval":
                try:
                    return self.lift(base[1].v[idx[1]])
                except Exception:
                    return ("idx", base, idx)
            if base[0] in ("tuple", "list") and isinstance(idx[1], int) and -len(base[1]) <= idx[1] < len(base[1]):
                return base[1][idx[1]]
            if base[0] == "dict" and len(base) >= 3 and base[1] and all(is_const(k_) for k_ in base[1]):
                # D[k] on a dict display with constant keys: the value written for that key (the last one, as Python keeps it)
                try:
                    hits = [v_ for k_, v_ in zip(base[1], base[2]) if k_[1] == idx[1] and type(k_[1]) is type(idx[1])]
                except Exception:  # noqa: BLE001
                    hits = []
                if hits:
                    return hits[-1]
        if idx[0] == "elem" and idx[1][0] == "call" and idx[1][2] == ("builtin", "range") and len(idx[1][3]) == 1 and not idx[1][4]:
            n = idx[1][3][0]
            if n[0] == "call" and n[2] == ("builtin", "len") and len(n[3]) == 1 and _same_value(n[3][0], base):
                # L[i] for i in range(len(L)): the elements of L in turn
                return ("elem", base, idx[2])
        seq = base[1] if is_const(base) else (base[1].v if base[0] == "gval" else None)
        if isinstance(seq, (tuple, list)) and len(seq) >= 2 and not is_const(idx):
            fmt = _format_table(seq)
            if fmt is not None:
                # a constant table with T[i] == f"{sep}{i:spec}" for every i it holds: the formatted index, defined for i < len(T) only
                self.format_tables.append((len(seq), idx, fmt[0], fmt[1]))
                return ("fstr", (const(fmt[0]), ("fmt", idx, fmt[1], -1)))
        return ("idx", base, idx)

    def _static_len(self, t):
        if is_const(t) and isinstance(t[1], (bytes, str, tuple)):
            return len(t[1])
        if self.len_hook is not None:
            n = self.len_hook(t)
            if isinstance(n, int):
                return n
        if t[0] == "param" and t[1] in self.param_len and not self._inline_stack:
            return self.param_len[t[1]]
        if t[0] == "bin" and t[1] == "+":
            a, b = self._static_len(t[2]), self._static_len(t[3])
            return a + b if a is not None and b is not None else None
        return None

    def binop(self, sym, a, b):
        if sym == "+" and a[0] == b[0] and a[0] in ("list", "tuple"):
            return ("list", a[1] + b[1], self._new_uid()) if a[0] == "list" else ("tuple", a[1] + b[1])  # concatenation of two displays
        if sym == "%" and is_const(a) and isinstance(a[1], str) and not is_const(b):
            parts = _percent_parts(a[1], b)
            if parts is not None:
                return _mk_fstr(parts)
        if is_const(a) and is_const(b):
            try:
                if sym in ("<<", "**") and isinstance(b[1], int) and b[1] > 4096:
                    return top("too large")
                return const(_BINFN[sym](a[1], b[1]))
            except Exception:
                return ("bin", sym, a, b)
        return ("bin", sym, a, b)

    def cmp(self, sym, a, b):
        if sym in ("is", "==", "is not", "!=") and is_const(b) and isinstance(b[1], bool) and a[0] in ("cmp", "not", "and", "or", "truth", "sel"):
            # a comparison result is a bool: `c is True` is c, `c is False` its negation
            pos = (sym in ("is", "==")) == b[1]
            c_ = a[1] if a[0] == "truth" else a
            return c_ if pos else self.negate(c_)
        if is_const(a) and is_const(b):
            try:
                return const(bool(_CMPFN[sym](a[1], b[1])))
            except Exception:
                return ("cmp", sym, a, b)
        if sym in ("==", "!="):
            for x, y in ((a, b), (b, a)):
                # "PREFIX" + <something> can only equal a constant string that starts with PREFIX
                if is_const(x) and isinstance(x[1], str) and y[0] == "bin" and y[1] == "+" and is_const(y[2]) and isinstance(y[2][1], str):
                    if not x[1].startswith(y[2][1]) or (y[3][0] == "fstr" and y[3][1] and is_const(y[3][1][0]) and not x[1][len(y[2][1]):].startswith(str(y[3][1][0][1]))):
                        return const(sym == "!=")
        if sym in ("==", "!="):
            for x, y in ((a, b), (b, a)):
                # an f-string that begins / ends with literal text can only equal a constant string that begins / ends with it
                if is_const(x) and isinstance(x[1], str) and y[0] == "fstr" and y[1]:
                    first, last = y[1][0], y[1][-1]
                    if (is_const(first) and isinstance(first[1], str) and not x[1].startswith(first[1])) or (is_const(last) and isinstance(last[1], str) and not x[1].endswith(last[1])):
                        return const(sym == "!=")
        if sym in _CMPFN:
            # a comparison of a gated constant (a result code chosen on earlier tests) with a constant is a boolean combination of those tests
            for x, y, left in ((a, b, True), (b, a, False)):
                if x[0] == "ite" and is_const(y) and x in self._alts:
                    r = self._sel(x, lambda k: (_CMPFN[sym](k, y[1]) if left else _CMPFN[sym](y[1], k)))
                    if r is not None:
                        return r
                if x[0] == "ite" and is_const(y) and _const_leaves(x):
                    return self._bool_tree(x, lambda k: (_CMPFN[sym](k, y[1]) if left else _CMPFN[sym](y[1], k)))
                if x[0] == "ite" and is_const(y) and _some_const_leaf(x):
                    # a default chosen on an earlier test (`n = 0` in the handler, `n = int(s)` otherwise): the comparison is decided on the constant
                    # alternatives and stays a comparison on the others
                    return self._bool_tree(x, lambda k: (_CMPFN[sym](k, y[1]) if left else _CMPFN[sym](y[1], k)), other=lambda t: self.cmp(sym, t, y) if left else self.cmp(sym, y, t))
        if sym in ("in", "not in") and is_const(b) and isinstance(b[1], (tuple, list, set, frozenset)) and len(b[1]) == 1:
            return self.cmp("==" if sym == "in" else "!=", a, self.lift(next(iter(b[1]))))  # membership in a one-element constant
        if sym in ("in", "not in") and is_const(a) and b[0] == "gval":
            try:
                r = a[1] in b[1].v
                return const(r if sym == "in" else not r)
            except Exception:
                pass
        if sym in ("is", "is not", "==", "!=") and is_const(b) and b[1] is None and a[0] in ("tuple", "list", "dict", "gval", "nonnull", "self", "func", "class"):
            return const(sym in ("is not", "!="))
        return ("cmp", sym, a, b)

    @staticmethod
    def call_join_display(sep, disp):
        parts = []
        for i, it in enumerate(disp[1]):
            if i and sep[1]:
                parts.append(const(sep[1]))
            if it[0] == "fstr":
                parts.extend(it[1])
            elif is_const(it) and isinstance(it[1], str):
                parts.append(it)
            else:
                parts.append(("fmt", it, "", -1))
        if len(parts) == 1 and parts[0][0] == "fmt" and parts[0][2] == "" and parts[0][3] == -1:
            return parts[0][1]  # a single string item is itself
        return _mk_fstr(parts) if parts else const("")

    def _bool_tree(self, t, pred, other=None):
        if is_const(t):
            try:
                return const(bool(pred(t[1])))
            except Exception:
                return const(False) if other is None else other(t)
        if t[0] != "ite":
            return other(t)
        c, A, B = t[1], self._bool_tree(t[2], pred, other), self._bool_tree(t[3], pred, other)
        if A == B:
            return A
        nc = self.negate(c)
        if is_const(A) and is_const(B):
            return c if A[1] else nc
        if is_const(A):
            return self._or(c, B) if A[1] else self._and(nc, B)
        if is_const(B):
            return self._or(nc, A) if B[1] else self._and(c, A)
        return self._or(self._and(c, A), self._and(nc, B))

    @staticmethod
    def _and(a, b):
        xs = (a[1] if a[0] == "and" else (a,)) + (b[1] if b[0] == "and" else (b,))
        return ("and", tuple(xs))

    @staticmethod
    def _or(a, b):
        xs = (a[1] if a[0] == "or" else (a,)) + (b[1] if b[0] == "or" else (b,))
        return ("or", tuple(xs))

    def _star_arity(self, f, given: int, e) -> int | None:
        """Number of items a trailing *args must supply: the callee's positional parameters not yet covered (package callee without *args / defaults)."""
        q = None
        if f[0] == "attr" and f[1] == ("self",) and self.func is not None and self.func.cls:
            q = f"{self.func.module}.{self.func.cls}.{f[2]}"
        elif f[0] == "func":
            q = f[1]
        fi = self.ce.repo.funcs.get(q) if q else None
        if fi is None or e.keywords:
            return None
        a = fi.node.args
        if a.vararg or a.kwarg or a.defaults or a.kwonlyargs:
            return None
        n = len(fi.params) - (1 if (fi.cls and not fi.is_static) else 0) - given
        return n if 0 < n <= 4 else None

    def _is_functools_reduce(self, fn) -> bool:
        mod = self.ce.repo.modules.get(self.func.module) if self.func is not None else None
        if mod is None:
            return False
        if isinstance(fn, ast.Name):
            return any(isinstance(n, ast.ImportFrom) and n.module == "functools" and any(a.name == "reduce" and (a.asname or a.name) == fn.id for a in n.names) for n in mod.tree.body)
        if isinstance(fn, ast.Attribute) and fn.attr == "reduce" and isinstance(fn.value, ast.Name):
            return any(isinstance(n, ast.Import) and any(a.name == "functools" and (a.asname or a.name) == fn.value.id for a in n.names) for n in mod.tree.body)
        return False

    def call(self, e: ast.Call, st: State):
        fn = e.func
        if len(e.args) == 3 and not e.keywords and self._is_functools_reduce(fn):
            # reduce(f, xs, init) is  acc = init; for x in xs: acc = f(acc, x)  - evaluated as those statements
            f_, xs_, init_ = e.args
            if isinstance(xs_, ast.Call) and isinstance(xs_.func, ast.Name) and xs_.func.id == "iter" and len(xs_.args) == 1 and not xs_.keywords:
                xs_ = xs_.args[0]
            an, xn = f"__reduce_{e.lineno}_{e.col_offset}", f"__item_{e.lineno}_{e.col_offset}"
            step = ast.Assign(targets=[ast.Name(id=an, ctx=ast.Store())], value=ast.Call(func=f_, args=[ast.Name(id=an, ctx=ast.Load()), ast.Name(id=xn, ctx=ast.Load())], keywords=[]))
            loop = ast.For(target=ast.Name(id=xn, ctx=ast.Store()), iter=xs_, body=[step], orelse=[], type_comment=None)
            init = ast.Assign(targets=[ast.Name(id=an, ctx=ast.Store())], value=init_)
            for n_ in (init, loop):
                ast.copy_location(n_, e)
                ast.fix_missing_locations(n_)
            st2 = self.block([init, loop], st)
            val = st2.env.pop(an, top("reduce"))
            st2.env.pop(xn, None)
            st.env, st.dnf, st.dead = st2.env, st2.dnf, st2.dead
            return val
        if isinstance(fn, ast.Attribute):
            recv = self.expr(fn.value, st)
            f = ("attr", recv, fn.attr)
        else:
            recv = None
            f = self.expr(fn, st)
            if f[0] == "call" and f[2] == ("builtin", "getattr") and len(f[3]) == 2 and f[3][0] == ("self",) and is_const(f[3][1]) and isinstance(f[3][1][1], str) and not f[4]:
                # getattr(self, "name")(...) is self.name(...)
                if self.effects and self.effects[-1].term is f:
                    self.effects.pop()
                recv = ("self",)
                f = ("attr", recv, f[3][1][1])
            elif isinstance(fn, ast.Name) and f[0] in ("field", "fieldv") and isinstance(f[1], str):
                # m = self.meth; m(...) is self.meth(...)
                recv = ("self",)
                f = ("attr", recv, f[1])
        args = []
        for a in e.args:
            if isinstance(a, ast.Starred):
                v = self.expr(a.value, st)
                if v[0] in ("tuple", "list"):
                    args.extend(v[1])  # f(*(x, y)) is f(x, y)
                    continue
                if is_const(v) and isinstance(v[1], (tuple, list)):
                    args.extend(self.lift(x) for x in v[1])
                    continue
                # the remaining positional parameters of a known callee, as projections of the starred value
                k = self._star_arity(f, len(args), e) if a is e.args[-1] else None
                if k is not None:
                    args.extend(self.proj(v, i) for i in range(k))
                    continue
                args.append(("star", v))
                continue
            args.append(self.expr(a, st))
        kwargs = []
        for k in e.keywords:
            kwargs.append((k.arg, self.expr(k.value, st)))
        args, kwargs = tuple(args), tuple(kwargs)
        if f[0] == "attr" and f[1][0] == "builtin" and f[1][1] in ("int", "bytes", "str") and args and f[2] in ("to_bytes", "bit_length", "hex", "decode", "strip", "split", "rsplit", "startswith", "endswith"):
            # the unbound-method form T.m(x, ...) of x.m(...) for a value of the builtin type T
            recv, f, args = args[0], ("attr", args[0], f[2]), args[1:]
        if f[0] == "builtin" and f[1] in ("int", "str", "bytes", "tuple") and len(args) == 1 and not kwargs and not is_const(args[0]) \
                and static_type(args[0]) is {"int": int, "str": str, "bytes": bytes, "tuple": tuple}[f[1]]:
            return args[0]  # a conversion to the type the value already has is the value
        if f == ("builtin", "range") and len(args) == 1 and not kwargs and args[0][0] == "call" and args[0][2] == ("builtin", "len") and len(args[0][3]) == 1 and not args[0][4]:
            inner_ = args[0][3][0]
            if inner_[0] == "call" and inner_[2] == ("builtin", "range") and len(inner_[3]) == 1 and not inner_[4]:
                args = (inner_[3][0],)  # range(len(range(n))) visits what range(n) visits (nothing for n <= 0)
        if f == ("builtin", "bool") and len(args) == 1 and not kwargs and not is_const(args[0]):
            return ("truth", args[0])  # bool(x) is the truth of x (the form `not not x` has): no call of its own
        # ---- pure folding on constants
        if f[0] == "builtin" and f[1] in PURE_BUILTINS and PURE_BUILTINS[f[1]] and not kwargs and all(is_const(a) for a in args):
            try:
                return self.lift(PURE_BUILTINS[f[1]](*[a[1] for a in args]))
            except Exception:
                pass
        if f[0] == "builtin" and f[1] == "len" and len(args) == 1 and not kwargs and (args[0][0] in ("param", "bin")) and self._static_len(args[0]) is not None:
            return const(self._static_len(args[0]))
        if f[0] == "builtin" and f[1] == "len" and len(args) == 1 and args[0][0] == "gval":
            return const(len(args[0][1].v))
        if f[0] == "builtin" and f[1] == "len" and len(args) == 1 and args[0][0] == "tuple":
            return const(len(args[0][1]))
        if f[0] == "builtin" and f[1] == "isinstance" and len(args) == 2 and not kwargs:
            ty = static_type(args[0])
            want = args[1]
            names = None
            if want[0] == "builtin":
                names = (want[1],)
            elif want[0] == "tuple" and all(x[0] == "builtin" for x in want[1]):
                names = tuple(x[1] for x in want[1])
            if ty is not None and names is not None and all(n in _TYPES for n in names):
                return const(any(issubclass(ty, _TYPES[n]) for n in names))
        if f[0] == "attr" and f[2] in PURE_METHODS and (is_const(recv) or recv[0] == "gval") and all(is_const(a) for a in args) and all(is_const(v) for _, v in kwargs):
            try:
                rv = recv[1] if is_const(recv) else recv[1].v
                return self.lift(getattr(rv, f[2])(*[a[1] for a in args], **{k: v[1] for k, v in kwargs}))
            except Exception:
                pass
        if f == ("builtin", "dict") and len(args) == 1 and not kwargs and args[0][0] == "call" and args[0][2] == ("builtin", "zip") and len(args[0][3]) == 2 and not args[0][4]:
            ks_, vs_ = args[0][3]
            kitems = tuple(self.lift(x) for x in ks_[1]) if (is_const(ks_) and isinstance(ks_[1], (tuple, list))) else (ks_[1] if ks_[0] in ("tuple", "list") else None)
            vitems = tuple(self.lift(x) for x in vs_[1]) if (is_const(vs_) and isinstance(vs_[1], (tuple, list))) else (vs_[1] if vs_[0] in ("tuple", "list") else None)
            if kitems is not None and vitems is not None and len(kitems) == len(vitems):
                # dict(zip((k1, k2, ...), (v1, v2, ...))) is the display {k1: v1, k2: v2, ...}
                if self.effects and self.effects[-1].term is args[0]:
                    self.effects.pop()
                return ("dict", tuple(kitems), tuple(vitems), self._new_uid())
        if f == ("builtin", "dict") and not args and kwargs and all(k is not None for k, _ in kwargs):
            return ("dict", tuple(const(k) for k, _ in kwargs), tuple(v for _, v in kwargs), self._new_uid())  # dict(a=1, b=2)
        if f == ("builtin", "format") and 1 <= len(args) <= 2 and not kwargs and (len(args) == 1 or (is_const(args[1]) and isinstance(args[1][1], str))):
            return _mk_fstr([("fmt", args[0], args[1][1] if len(args) == 2 else "", -1)])  # format(x[, spec]) is f"{x:spec}"
        if f[0] == "attr" and f[2] == "join" and is_const(recv) and isinstance(recv[1], str) and len(args) == 1 and not kwargs and args[0][0] in ("tuple", "list"):
            # sep.join((a, b, c)) on a display: the items (strings, or join raises) with the separator between them
            parts = []
            for i, it in enumerate(args[0][1]):
                if i and recv[1]:
                    parts.append(const(recv[1]))
                if it[0] == "fstr":
                    parts.extend(it[1])
                elif is_const(it) and isinstance(it[1], str):
                    parts.append(it)
                else:
                    parts.append(("fmt", it, "", -1))
            return _mk_fstr(parts) if parts else const("")
        if f[0] == "attr" and f[2] == "join" and is_const(recv) and isinstance(recv[1], str) and len(args) == 1 and not kwargs and args[0][0] == "bin" and args[0][1] == "+" \
                and args[0][2][0] in ("tuple", "list") and args[0][2][1] and args[0][3][0] == "comp" and len(args[0][3]) == 4:
            # sep.join([a, b] + [e(x) for x in xs])  is  sep.join([a, b]) + "".join(sep + e(x) for x in xs)   (the display is not empty)
            head = self.call_join_display(recv, args[0][2])
            comp = args[0][3]
            elt = comp[2]
            eparts = list(elt[1]) if elt[0] == "fstr" else [elt if (is_const(elt) and isinstance(elt[1], str)) else ("fmt", elt, "", -1)]
            elt2 = _mk_fstr(([const(recv[1])] if recv[1] else []) + eparts)
            uid2 = self._new_uid()
            tail = ("call", uid2, ("attr", const(""), "join"), ((comp[0], comp[1], elt2, comp[3]),), ())
            return ("bin", "+", head, tail)
        if f[0] == "attr" and f[2] in ("zfill", "rjust") and recv[0] == "call" and recv[2] == ("builtin", "str") and len(recv[3]) == 1 and not recv[4] and not kwargs \
                and ((f[2] == "zfill" and len(args) == 1) or (f[2] == "rjust" and len(args) == 2 and args[1] == const("0"))) and is_const(args[0]) and isinstance(args[0][1], int) and 0 < args[0][1] < 100:
            # str(i).zfill(n) is f"{i:0nd}" for an int i (sign handling included); the callers format group indices
            if self.effects and self.effects[-1].term is recv:
                self.effects.pop()
            return _mk_fstr([("fmt", recv[3][0], f"0{args[0][1]}d", -1)])
        if f[0] == "attr" and f[2] == "format" and is_const(recv) and isinstance(recv[1], str) and None not in [k for k, _ in kwargs] and not any(isinstance(a, ast.Starred) for a in e.args):
            # a literal template formatted with str.format is the f-string with the same holes
            parts = _format_call_parts(recv[1], args, kwargs)
            if parts is not None:
                return _mk_fstr(parts)
        if self.inline is not None and len(self._inline_stack) < 3:
            callee = self.inline(e, f, self.func)
            if callee is not None and all(callee is not fi for fi, _ in self._inline_stack) and callee is not self.func:
                r = self._inline_call(callee, f, args, kwargs, st)
                if r is not None:
                    return r
        uid = self._new_uid()
        t = ("call", uid, f, args, kwargs)
        self._effect("call", e, t, st)
        # a call that receives the instance may modify its fields: forget what is known about them
        passes_self = (f[0] == "attr" and f[1] == ("self",)) or ("self",) in args or any(v == ("self",) for _, v in kwargs)
        if passes_self and not (f[0] == "builtin" and f[1] in ("getattr", "hasattr", "isinstance", "len", "str", "repr", "id", "type")):
            for k in list(st.env):
                if k.startswith("self.") and k[5:] not in self.frozen_fields and k != "self.*":
                    if f == ("builtin", "setattr") and len(args) == 3 and is_const(args[1]) and k != "self." + str(args[1][1]):
                        continue
                    st.env[k] = ("havoc", uid, k)
            if not (f == ("builtin", "setattr") and len(args) == 3 and is_const(args[1])):
                st.env["self.*"] = ("after", uid)
        return t


def _rotate_primed_loops(stmts):
    """P; while T: B; P   (the same simple assignment P before the loop and as the last statement of its body, no continue in B, T reads
    P's target)  is  while True: P; if not T: break; B  - the form with a single consume site per iteration that the loop rules follow.
    With an `else` clause E (free of break / continue):  while True: P; if not T: E; break; B."""
    if len(stmts) < 2 or not any(isinstance(x, ast.While) for x in stmts):
        return stmts
    cached = getattr(stmts[0], "_sa_rotated_block", None)
    if cached is not None and cached[0] is stmts:
        return cached[1]
    out, i, changed = [], 0, False
    while i < len(stmts):
        p_ = stmts[i]
        w = stmts[i + 1] if i + 1 < len(stmts) else None
        if (isinstance(p_, ast.Assign) and isinstance(w, ast.While) and not _has(w.orelse, (ast.Break, ast.Continue)) and len(w.body) >= 1 and isinstance(w.body[-1], ast.Assign)
                and ast.dump(p_) == ast.dump(w.body[-1]) and len(p_.targets) == 1 and isinstance(p_.targets[0], ast.Name)
                and any(isinstance(n, ast.Name) and n.id == p_.targets[0].id for n in ast.walk(w.test))
                and not _has(w.body[:-1], (ast.Continue,)) and p_.targets[0].id not in _assigned_names(w.body[:-1])
                and not (isinstance(w.test, ast.Constant))):
            # (an `else` clause runs exactly when the test fails - not on a `break` of the body: it moves in front of the added break)
            brk = ast.If(test=ast.UnaryOp(op=ast.Not(), operand=w.test), body=list(w.orelse) + [ast.Break()], orelse=[])
            ast.copy_location(brk, w.test)
            ast.copy_location(brk.test, w.test)
            ast.copy_location(brk.body[-1], w.test)
            nw = ast.While(test=ast.Constant(value=True), body=[w.body[-1], brk] + list(w.body[:-1]), orelse=[])
            ast.copy_location(nw, w)
            ast.copy_location(nw.test, w.test)
            ast.fix_missing_locations(nw)
            nw._sa_from_while = w
            out.append(nw)
            i += 2
            changed = True
            continue
        out.append(p_)
        i += 1
    res = out if changed else stmts
    try:
        stmts[0]._sa_rotated_block = (stmts, res)
    except Exception:
        pass
    return res


def _tail_positions(body):
    """(ids of the simple statements after which control falls off the end of `body`, ids of the ifs in that position that have no else)."""
    leaves, noelse = set(), set()

    def rec(stmts):
        if not stmts:
            return
        last = stmts[-1]
        if isinstance(last, ast.If):
            rec(last.body)
            if last.orelse:
                rec(last.orelse)
            else:
                noelse.add(id(last))
        elif isinstance(last, ast.Try) and not last.finalbody:
            rec(last.orelse if last.orelse else last.body)
            for h in last.handlers:
                rec(h.body)
        else:
            leaves.add(id(last))

    rec(body)
    return leaves, noelse


def _const_leaves(t, depth=0) -> bool:
    if is_const(t):
        return True
    return t[0] == "ite" and depth < 12 and _const_leaves(t[2], depth + 1) and _const_leaves(t[3], depth + 1)


def _const_display(t) -> bool:
    """A constant, or a tuple display of constants (`result = (None, None)`)."""
    return is_const(t) or (t[0] == "tuple" and len(t[1]) <= 4 and all(is_const(x) for x in t[1]))


def _ite_depth(env) -> int:
    """Deepest nesting of alternatives among the values of an environment (shared sub-terms visited once)."""
    memo: dict = {}

    def d(t):
        if not isinstance(t, tuple) or not t or t[0] != "ite":
            return 0
        k = id(t)
        if k not in memo:
            memo[k] = 0
            memo[k] = 1 + max(d(t[2]), d(t[3]))
        return memo[k]

    return max((d(v) for v in env.values()), default=0)


def _cond_leaves(t) -> bool:
    """Every alternative of the gated term is a condition (comparison, and / or / not of such, truth, a boolean constant)."""
    if t[0] == "ite":
        return _cond_leaves(t[2]) and _cond_leaves(t[3])
    return t[0] in ("cmp", "and", "or", "not", "truth", "sel") or (is_const(t) and isinstance(t[1], bool))


def _some_const_leaf(t, depth=0) -> bool:
    """An ite tree of at most 4 levels with a constant among its alternatives."""
    if is_const(t):
        return True
    return t[0] == "ite" and depth < 4 and (_some_const_leaf(t[2], depth + 1) or _some_const_leaf(t[3], depth + 1))


def _ite_under(t, guards):
    """Drop the alternatives of a gated term that the literals of the path condition exclude."""
    def holds(c, want=True):
        """Whether the literals decide the condition `c` to be `want` (True), to be the opposite (False), or do not say (None)."""
        if c[0] == "and":
            rs = [holds(x, True) for x in c[1]]
            r = True if all(x is True for x in rs) else (False if any(x is False for x in rs) else None)
        elif c[0] == "or":
            rs = [holds(x, True) for x in c[1]]
            r = True if any(x is True for x in rs) else (False if all(x is False for x in rs) else None)
        elif c[0] == "not":
            r0 = holds(c[1], True)
            r = None if r0 is None else not r0
        elif (c, True) in guards or neg_lit((c, False)) in guards:
            r = True
        elif (c, False) in guards or neg_lit((c, True)) in guards:
            r = False
        else:
            r = None
        return r if want or r is None else not r

    while t[0] == "ite":
        c = t[1]
        h = holds(c)
        pos = h is True
        neg = h is False
        if pos:
            t = t[2]
        elif neg:
            t = t[3]
        else:
            a, b = _ite_under(t[2], guards), _ite_under(t[3], guards)
            return t if (a is t[2] and b is t[3]) else (a if a == b else ("ite", c, a, b))
    return t


def _mk_fstr(parts):
    merged = []
    for p_ in parts:  # adjacent literal pieces are one literal
        if merged and is_const(p_) and is_const(merged[-1]) and isinstance(p_[1], str) and isinstance(merged[-1][1], str):
            merged[-1] = const(merged[-1][1] + p_[1])
        else:
            merged.append(p_)
    parts = merged
    if all(is_const(p) for p in parts):
        return const("".join(str(p[1]) for p in parts))
    if all(is_const(p) or (p[0] == "fmt" and is_const(p[1]) and isinstance(p[2], str) and p[3] == -1) for p in parts):
        try:
            return const("".join(str(p[1]) if is_const(p) else format(p[1][1], p[2]) for p in parts))
        except Exception:
            pass
    return ("fstr", tuple(parts))


def _subst_term(t, old, new):
    if t == old:
        return new
    if isinstance(t, tuple):
        return tuple(_subst_term(x, old, new) if isinstance(x, tuple) else x for x in t)
    return t


def _percent_parts(template: str, arg):
    """'lit%dlit%03d' % (a, b) as the parts of the equivalent f-string (conversions d, i, s, r, x, X with optional 0-flag / width); else None."""
    import re as _re

    items = list(arg[1]) if arg[0] == "tuple" else [arg]
    parts, pos, k = [], 0, 0
    for m in _re.finditer(r"%(?:(%)|(0?)(\d*)([disrxX]))", template):
        if template[pos:m.start()]:
            parts.append(const(template[pos:m.start()]))
        pos = m.end()
        if m.group(1):
            parts.append(const("%"))
            continue
        if k >= len(items):
            return None
        zero, width, conv = m.group(2), m.group(3), m.group(4)
        v = items[k]
        k += 1
        if conv in ("d", "i"):
            parts.append(("fmt", v, f"{zero}{width}d", -1))
        elif conv in ("x", "X"):
            parts.append(("fmt", v, f"{zero}{width}{conv}", -1))
        elif conv == "s" and not zero and not width:
            if v[0] == "fstr":
                parts.extend(v[1])
            elif is_const(v) and isinstance(v[1], str):
                parts.append(v)
            else:
                parts.append(("fmt", v, "", -1))
        elif conv == "r" and not zero and not width:
            parts.append(("fmt", v, "", ord("r")))
        else:
            return None
    if "%" in template[pos:].replace("%%", "") or k != len(items):
        return None
    if template[pos:]:
        parts.append(const(template[pos:]))
    return parts


def _format_call_parts(template: str, args, kwargs):
    """'lit{}lit{0!r}{name:spec}'.format(...) as the parts of the equivalent f-string; None for field forms beyond plain positions and names."""
    import string

    parts, auto = [], 0
    kw = dict(kwargs)
    try:
        fields = list(string.Formatter().parse(template))
    except ValueError:
        return None
    manual = False
    for lit, name, spec, conv in fields:
        if lit:
            parts.append(const(lit))
        if name is None:
            continue
        if "{" in (spec or ""):
            return None
        if name == "":
            if manual or auto >= len(args):
                return None
            val = args[auto]
            auto += 1
        elif name.isdigit():
            if auto or int(name) >= len(args):
                return None
            manual = True
            val = args[int(name)]
        elif name.isidentifier() and name in kw:
            val = kw[name]
        else:
            return None
        cv = -1 if conv is None else ord(conv)
        if val[0] == "fstr" and not spec and cv in (-1, ord("s")):
            parts.extend(val[1])
        elif is_const(val) and isinstance(val[1], str) and not spec and cv in (-1, ord("s")):
            parts.append(val)
        else:
            parts.append(("fmt", val, spec or "", cv))
    return parts


def _same_value(a, b) -> bool:
    """Two terms denoting the same object (call terms compared by their unique ids)."""
    return a == b


def _build_gated(rets, base_len):
    """[(conjunction, value)] -> gated term, splitting on the first literal beyond the common prefix."""
    if len(rets) == 1:
        return rets[0][1]
    vals = {v for _, v in rets}
    if len(vals) == 1:
        return rets[0][1]
    # choose a literal on which the alternatives differ
    for lit in rets[0][0][base_len:]:
        c, pol = lit
        nl = neg_lit(lit)
        pos = [(cj, v) for cj, v in rets if (c, pol) in cj]
        neg = [(cj, v) for cj, v in rets if (c, not pol) in cj or nl in cj]
        if pos and neg and len(pos) + len(neg) == len(rets):
            a, b = _build_gated(pos, base_len), _build_gated(neg, base_len)
            if a is None or b is None:
                return None
            return ("ite", c, a, b) if pol else ("ite", c, b, a)
    return None


_TYPES = {"tuple": tuple, "int": int, "str": str, "dict": dict, "list": list, "bytes": bytes, "float": float, "bool": bool, "set": set, "bytearray": bytearray}


def static_type(t):
    """Python type of the value a term denotes, when it is evident from the term's shape."""
    if is_const(t):
        return type(t[1])
    if t[0] == "tuple":
        return tuple
    if t[0] == "list":
        return list
    if t[0] in ("dict",):
        return dict
    if t[0] == "set":
        return set
    if t[0] == "fstr":
        return str
    if t[0] == "gval":
        return type(t[1].v) if type(t[1].v) in (dict, list, set) else (dict if isinstance(t[1].v, dict) else None)
    if t[0] == "typed":
        return t[1]
    if t[0] == "call" and t[2][0] == "builtin" and not t[4]:
        return {"len": int, "int": int, "ord": int, "abs": None, "bin": str, "hex": str, "str": str, "chr": str, "bytes": bytes, "bool": bool, "tuple": tuple, "list": list, "dict": dict}.get(t[2][1])
    if t[0] == "call" and t[2][0] == "attr" and t[2][2] in ("count", "bit_length", "find", "index") and static_type(t[2][1]) in (str, bytes, int, list, tuple):
        return int
    if t[0] == "call" and t[2][0] == "attr" and t[2][2] == "from_bytes" and t[2][1] == ("builtin", "int"):
        return int
    if t[0] == "call" and t[2][0] == "attr" and t[2][2] == "to_bytes":
        return bytes
    if t[0] == "bin" and t[1] in ("+", "-", "*", "//", "%", "<<", ">>", "&", "|", "^"):
        a, b = static_type(t[2]), static_type(t[3])
        if a is int and b is int:
            return int
        if t[1] == "+" and a is b and a in (str, bytes):
            return a
    if t[0] in ("cmp", "not", "and", "truth"):
        return bool if t[0] != "and" else None
    return None


def _inline_call_impl(self, callee, f, args, kwargs, st):
    """Evaluate a small private helper in place of an opaque call (interprocedural inlining, depth <= 3).
    Returns the gated result term, or None when the call cannot be inlined (then it stays an opaque call)."""
    a = callee.node.args
    if a.vararg or a.kwarg or a.posonlyargs or callee.decorators and not callee.is_static:
        return None
    params = [x.arg for x in a.args]
    is_method = bool(callee.cls) and not callee.is_static
    if is_method and not (f[0] == "attr" and f[1] == ("self",)):
        return None
    env = {}
    pos = list(params[1:]) if is_method else list(params)
    if len(args) > len(pos):
        return None
    for n, v in zip(pos, args):
        env[n] = v
    for k, v in kwargs:
        if k is None or (k not in pos and k not in [x.arg for x in a.kwonlyargs]):
            return None
        env[k] = v
    callee_env = self.ce.module_env(callee.module)
    defaults = [None] * (len(params) - len(a.defaults)) + list(a.defaults)
    for n, d in list(zip(params, defaults)) + list(zip([x.arg for x in a.kwonlyargs], a.kw_defaults)):
        if n not in env and d is not None and not (is_method and n == params[0]):
            env[n] = self.lift(self.ce.eval(callee.module, d, callee_env))
    if any(n not in env for n in pos):
        return None
    if is_method:
        env[params[0]] = ("self",)
        for k, v in st.env.items():
            if k.startswith("self."):
                env[k] = v
    saved = (self.func, self.modenv, self.selfname, self._lid_prefix)
    self.func, self.modenv, self.selfname = callee, callee_env, (params[0] if is_method else None)
    cnt = self.__dict__.setdefault("_inline_counts", {})
    cnt[callee.qualname] = cnt.get(callee.qualname, 0) + 1
    # loop / try ids of an inlined body are prefixed by the callee's name; a second inlining of the same helper gets its own ids
    self._lid_prefix = saved[3] + callee.name + (f"#{cnt[callee.qualname]}" if cnt[callee.qualname] > 1 else "") + "."
    rets = []
    self._frame_envs.append(st.env)
    self._inline_stack.append((callee, rets))
    sub = State(env, st.dnf, None)
    base_len = min((len(c) for c in st.dnf), default=0)
    try:
        sub = self.block(callee.node.body, sub)
    finally:
        self._inline_stack.pop()
        self._frame_envs.pop()
        self.func, self.modenv, self.selfname, self._lid_prefix = saved
    alts = [(dnf, v, env2) for dnf, v, env2 in rets]
    if not sub.dead:
        alts.append((sub.dnf, const(None), dict(sub.env)))
    if not alts:
        st.dead = "raise"  # every path of the helper raises
        return top("helper always raises")
    flat = []
    for dnf, v, _ in alts:
        for conj in dnf:
            flat.append((conj, v))
    # the caller goes on only on the paths on which the helper returned: what the helper tested before returning (a check that raises otherwise)
    # holds from here on
    ret_dnf = ()
    for dnf_, _, _ in alts:
        ret_dnf = dnf_or(ret_dnf, dnf_) if ret_dnf else dnf_
    if ret_dnf:
        st.dnf = ret_dnf
    res = _build_gated(flat, base_len) if len({v for _, v in flat}) > 1 else flat[0][1]
    if res is None and len(flat) <= 12:
        # no single literal separates the alternatives (a disjunctive test in the helper): the first alternative whose whole path condition holds -
        # the paths are mutually exclusive and cover every return
        common = set(st.guards)

        def conj_term(conj):
            lits = [l for l in conj if l not in common]
            ts = [c if pol else self.negate(c) for c, pol in lits]
            return ts[0] if len(ts) == 1 else (("and", tuple(ts)) if ts else const(True))

        res = flat[-1][1]
        for conj, v in reversed(flat[:-1]):
            res = self.ite(conj_term(conj), v, res)
    if res is None:
        res = ("phi", tuple(v for _, v in flat))
    elif res[0] == "ite" and all(is_const(v) for _, v in flat):
        # remember each alternative with its whole path condition (a test of the result then assumes all of it, not just the literal the
        # gated term happens to split on)
        common = set(st.guards)
        self._alts[res] = tuple((tuple(l for l in conj if l not in common), v) for conj, v in flat)
    # instance fields possibly changed by the helper
    if is_method:
        for k in set().union(*[set(e2) for _, _, e2 in alts]):
            if k.startswith("self."):
                vals = {e2.get(k, ("field", k[5:])) for _, _, e2 in alts}
                st.env[k] = vals.pop() if len(vals) == 1 else ("havoc", self._new_uid(), k)
    return res


SymEval._inline_call = _inline_call_impl


class _Box:
    """Hashable wrapper for an unhashable folded table value (identity semantics)."""

    __slots__ = ("v",)

    def __init__(self, v):
        self.v = v

    def __hash__(self):
        return id(self.v)

    def __eq__(self, o):
        return isinstance(o, _Box) and o.v is self.v

    def __repr__(self):
        r = repr(self.v)
        return f"<table {r[:40]}...>" if len(r) > 40 else f"<table {r}>"


# ---------------------------------------------------------------------------- syntactic helpers
def may_raise_stmt(s) -> bool:
    """False only for statements that cannot raise: constant/name assignment to plain names, pass, break, continue."""
    if isinstance(s, (ast.Pass, ast.Break, ast.Continue, ast.Global, ast.Nonlocal)):
        return False
    if isinstance(s, ast.Assign) and all(isinstance(t, ast.Name) for t in s.targets) and isinstance(s.value, (ast.Constant, ast.Name)):
        return False
    if isinstance(s, ast.Expr) and isinstance(s.value, ast.Constant):
        return False

    def quiet(e):
        return e is None or isinstance(e, (ast.Constant, ast.Name)) or (isinstance(e, (ast.Tuple, ast.List)) and all(quiet(x) for x in e.elts))

    if isinstance(s, ast.Return) and quiet(s.value):
        return False  # returning locals / constants (or a display of them) raises nothing
    if isinstance(s, ast.Assign) and all(isinstance(t, ast.Name) for t in s.targets) and quiet(s.value):
        return False
    return True


def _as_load(t):
    import copy

    n = copy.copy(t)
    n.ctx = ast.Load()
    return n


def _written_globals(repo) -> frozenset:
    """Names bound at module level that some function of the package writes into after import: `N[...] = v`, `del N[...]`, `N[...] += v`,
    `N.append(...)` and the other mutating methods, `N += v` / `N = v` under a `global N` - where N is not a local of that function."""
    cached = getattr(repo, "_sa_written_globals", None)
    if cached is not None:
        return cached
    modnames = set()
    for m in repo.modules.values():
        for st in m.tree.body:
            for n in ast.walk(st) if not isinstance(st, (ast.FunctionDef, ast.AsyncFunctionDef, ast.ClassDef)) else ():
                if isinstance(n, ast.Name) and isinstance(n.ctx, ast.Store):
                    modnames.add(n.id)
    out = set()
    for f in repo.all_funcs():
        declared = {x for n in ast.walk(f.node) if isinstance(n, ast.Global) for x in n.names}
        local = {n.id for n in ast.walk(f.node) if isinstance(n, ast.Name) and isinstance(n.ctx, (ast.Store, ast.Del))} | set(f.params)
        local -= declared
        for n in ast.walk(f.node):
            nm = None
            if isinstance(n, ast.Subscript) and isinstance(n.ctx, (ast.Store, ast.Del)) and isinstance(n.value, ast.Name):
                nm = n.value.id
            elif isinstance(n, ast.Call) and isinstance(n.func, ast.Attribute) and isinstance(n.func.value, ast.Name) and n.func.attr in MUTATORS:
                nm = n.func.value.id
            elif isinstance(n, ast.Name) and isinstance(n.ctx, (ast.Store, ast.Del)) and n.id in declared:
                nm = n.id
            if nm is not None and nm in modnames and (nm not in local or nm in declared):
                out.add(nm)
    out = frozenset(out)
    try:
        repo._sa_written_globals = out
    except Exception:  # noqa: BLE001
        pass
    return out


def _assigned_names(stmts) -> set[str]:
    out = set()
    for s in stmts:
        for n in ast.walk(s):
            if isinstance(n, ast.Name) and isinstance(n.ctx, (ast.Store, ast.Del)):
                out.add(n.id)
            elif isinstance(n, ast.Subscript) and isinstance(n.ctx, ast.Store) and isinstance(n.value, ast.Name):
                out.add(n.value.id)
            elif isinstance(n, ast.Call) and isinstance(n.func, ast.Attribute) and isinstance(n.func.value, ast.Name) and n.func.attr in MUTATORS:
                out.add(n.func.value.id)
            elif isinstance(n, ast.ExceptHandler) and n.name:
                out.add(n.name)
    return out


MUTATORS = {"append", "extend", "insert", "pop", "remove", "clear", "update", "setdefault", "popitem", "sort", "reverse", "add", "discard", "__setitem__", "__delitem__"}


def _assigned_fields(stmts, selfname) -> set[str]:
    out = set()
    if not selfname:
        return out
    for s in stmts:
        for n in ast.walk(s):
            if isinstance(n, ast.Attribute) and isinstance(n.value, ast.Name) and n.value.id == selfname:
                if isinstance(n.ctx, (ast.Store, ast.Del)):
                    out.add(n.attr)
            if isinstance(n, ast.Subscript) and isinstance(n.ctx, ast.Store) and isinstance(n.value, ast.Attribute) and isinstance(n.value.value, ast.Name) and n.value.value.id == selfname:
                out.add(n.value.attr)
    return out


def _calls_self_methods(stmts, selfname, env=None) -> bool:
    if not selfname:
        return False
    for s in stmts:
        for n in ast.walk(s):
            if isinstance(n, ast.Call):
                f = n.func
                if isinstance(f, ast.Name) and env is not None:
                    v = env.get(f.id)
                    if isinstance(v, tuple) and v and ((v[0] == "attr" and v[1] == ("self",)) or v[0] in ("field", "fieldv")):
                        return True  # a local alias of a bound method (`recv = self._recv; recv()`), or of a callable kept in a field
                if isinstance(f, ast.Attribute) and isinstance(f.value, ast.Name) and f.value.id == selfname:
                    return True
                if isinstance(f, ast.Name) and f.id == "setattr":
                    return True
    return False


def _is_search_loop(s) -> bool:
    """for-loop whose body ends with `if <test>: ...; break` (no else branch), with no other break/continue in the body."""
    if not s.body or not isinstance(s.body[-1], ast.If) or s.body[-1].orelse:
        return False
    last = s.body[-1]
    if not last.body or not isinstance(last.body[-1], ast.Break):
        return False
    return not _has_break_continue(s.body[:-1]) and not _has_break_continue(last.body[:-1])


def _has_break_continue(stmts) -> bool:
    return _has(stmts, (ast.Break, ast.Continue))


def _has_break(stmts) -> bool:
    return _has(stmts, (ast.Break,))


def _has(stmts, kinds) -> bool:
    def rec(n, depth):
        if isinstance(n, kinds):
            return True
        if isinstance(n, (ast.For, ast.While)) and depth > 0:
            return any(rec(c, depth) for c in n.orelse)
        if isinstance(n, (ast.FunctionDef, ast.Lambda, ast.ClassDef)):
            return False
        return any(rec(c, depth + 1) for c in ast.iter_child_nodes(n))

    return any(rec(s, 1) for s in stmts)


def show(t, depth=0) -> str:
    """Readable rendering of a term."""
    if not isinstance(t, tuple) or not t:
        return repr(t)
    k = t[0]
    if k == "const":
        return repr(t[1])
    if k == "param":
        return t[1]
    if k == "field":
        return f"self.{t[1]}"
    if k == "fieldv":
        return f"self.{t[1]}@{t[2][0]}{t[2][1]}"
    if k == "self":
        return "self"
    if k == "bin":
        return f"({show(t[2])} {t[1]} {show(t[3])})"
    if k == "cmp":
        return f"({show(t[2])} {t[1]} {show(t[3])})"
    if k == "un":
        return f"{t[1]}{show(t[2])}"
    if k == "not":
        return f"not {show(t[1])}"
    if k == "idx":
        return f"{show(t[1])}[{show(t[2])}]"
    if k == "slice":
        f = lambda x: "" if x == ("const", None) else show(x)  # noqa: E731
        return f"{show(t[1])}[{f(t[2])}:{f(t[3])}]"
    if k == "attr":
        return f"{show(t[1])}.{t[2]}"
    if k == "call":
        a = [show(x) for x in t[3]] + [f"{kk}={show(v)}" for kk, v in t[4]]
        return f"{show(t[2])}({', '.join(a)})#{t[1]}"
    if k == "builtin":
        return t[1]
    if k == "func" or k == "class":
        return t[1]
    if k == "sel":
        return "<" + " | ".join(" & ".join(show(c) if p else "¬" + show(c) for c, p in conj) or "true" for i, (conj, _) in enumerate(t[1]) if i in t[2]) + ">"
    if k == "ite":
        return f"({show(t[2])} if {show(t[1])} else {show(t[3])})"
    if k == "tuple":
        return "(" + ", ".join(show(x) for x in t[1]) + ")"
    if k == "proj":
        return f"{show(t[1])}.{t[2]}"
    if k in ("and", "or"):
        return "(" + f" {k} ".join(show(x) for x in t[1]) + ")"
    if k == "fstr":
        return "f'" + "".join(str(p[1]) if p[0] == "const" else "{" + show(p[1]) + (":" + str(p[2]) if p[2] else "") + "}" for p in t[1]) + "'"
    if k == "gval":
        return repr(t[1])
    if k == "loop" or k == "loopout":
        return f"{k}:{t[1]}:{t[2]}"
    return "<" + " ".join(show(x) if isinstance(x, tuple) else str(x) for x in t) + ">"


def _format_table(seq):
    """(sep, spec) if every entry i of the sequence is sep + format(i, spec) for a zero-padded decimal spec, else None."""
    if not all(isinstance(x, str) for x in seq):
        return None
    first = seq[0]
    digits = len(first) - len(first.rstrip("0123456789"))
    if digits == 0:
        return None
    sep = first[: len(first) - digits]
    spec = f"0{digits}d" if digits > 1 else "d"
    for i, x in enumerate(seq):
        if x != sep + format(i, spec):
            return None
    return sep, spec


def _walk_no_nested_funcs(fn):
    todo = list(ast.iter_child_nodes(fn))
    while todo:
        n = todo.pop()
        yield n
        if isinstance(n, (ast.FunctionDef, ast.AsyncFunctionDef, ast.Lambda, ast.ClassDef)):
            continue
        todo.extend(ast.iter_child_nodes(n))


def _counter_while(s: ast.While, fnode, env):
    """`while i < N: BODY` where BODY advances the counter i by exactly one, once, as its first or last statement, N is not changed
    by BODY and i is not read after the loop: the counted loop `for i in range(i0, N): BODY` (the form every loop rule is written for).
    Returns the equivalent ast.For (same position), or None when the loop is not of that shape."""
    cached = getattr(s, "_sa_counter", False)
    if cached is not False and cached is None:
        return None
    t = s.test
    if not (isinstance(t, ast.Compare) and len(t.ops) == 1 and isinstance(t.ops[0], ast.Lt) and isinstance(t.left, ast.Name)):
        s._sa_counter = None
        return None
    var, bound = t.left.id, t.comparators[0]

    def invariant(e):
        if isinstance(e, ast.Constant):
            return isinstance(e.value, int)
        if isinstance(e, ast.Name):
            return e.id != var and e.id not in _assigned_names(s.body)
        if isinstance(e, ast.Call) and isinstance(e.func, ast.Name) and e.func.id == "len" and len(e.args) == 1 and not e.keywords:
            return isinstance(e.args[0], ast.Name) and invariant(e.args[0])
        if isinstance(e, ast.BinOp) and isinstance(e.op, (ast.Add, ast.Sub, ast.Mult)):
            return invariant(e.left) and invariant(e.right)
        return False

    def is_inc(x):
        if isinstance(x, ast.AugAssign) and isinstance(x.op, ast.Add) and isinstance(x.target, ast.Name) and x.target.id == var:
            return isinstance(x.value, ast.Constant) and x.value.value == 1 and not isinstance(x.value.value, bool)
        if isinstance(x, ast.Assign) and len(x.targets) == 1 and isinstance(x.targets[0], ast.Name) and x.targets[0].id == var and isinstance(x.value, ast.BinOp) and isinstance(x.value.op, ast.Add):
            a, b = x.value.left, x.value.right
            return (isinstance(a, ast.Name) and a.id == var and isinstance(b, ast.Constant) and b.value == 1) or (isinstance(b, ast.Name) and b.id == var and isinstance(a, ast.Constant) and a.value == 1)
        return False

    body = s.body
    ok = invariant(bound) and len(body) >= 2 and not s.orelse
    first = ok and is_inc(body[0])
    last = ok and not first and is_inc(body[-1])
    rest = body[1:] if first else body[:-1]
    mid = None
    if ok and not (first or last):
        # the increment stands between other statements: those before it see the counter, those after it the counter plus one
        pos = [k for k, x in enumerate(body) if is_inc(x)]
        if len(pos) == 1 and not _has(body[:pos[0]], (ast.Continue,)):
            mid = pos[0]
            rest = body[:mid] + body[mid + 1:]
    if not (first or last or mid is not None) or var in _assigned_names(rest) or (last and _has(rest, (ast.Continue,))):
        s._sa_counter = None
        return None
    # the counter must not be read once the loop is over (its final value differs between the two forms)
    if fnode is None:
        s._sa_counter = None
        return None
    inside = {id(n) for n in ast.walk(s)}
    after = False
    # reads after a later statement of the same block that assigns the counter afresh (`idx = 0` before the next loop) see that value, not this loop's
    reinit_at = None
    for blk in ast.walk(fnode):
        for fld in ("body", "orelse", "finalbody"):
            lst = getattr(blk, fld, None)
            if isinstance(lst, list) and any(x is s for x in lst):
                k0 = next(k for k, x in enumerate(lst) if x is s)
                for x in lst[k0 + 1:]:
                    if isinstance(x, ast.Assign) and any(isinstance(t_, ast.Name) and t_.id == var for t_ in x.targets) and not any(isinstance(n, ast.Name) and n.id == var for n in ast.walk(x.value)):
                        reinit_at = (x.lineno, x.col_offset)
                        break
                    if any(isinstance(n, ast.Name) and n.id == var for n in ast.walk(x)):
                        break
    for n in ast.walk(fnode):
        if isinstance(n, ast.Name) and n.id == var and isinstance(n.ctx, ast.Load) and id(n) not in inside and (n.lineno, n.col_offset) > (s.lineno, s.col_offset):
            if reinit_at is None or (n.lineno, n.col_offset) < reinit_at:
                after = True
    enclosing_loop = any(isinstance(n, (ast.For, ast.While)) and n is not s and id(s) in {id(x) for x in ast.walk(n)} for n in ast.walk(fnode))
    if after or (enclosing_loop and not _reinitialised_before(s, fnode, var)):
        s._sa_counter = None
        return None
    s._sa_counter = True
    start = env.get(var)
    args = [bound] if start == ("const", 0) else [ast.Name(id=var, ctx=ast.Load()), bound]
    it = ast.Call(func=ast.Name(id="range", ctx=ast.Load()), args=args, keywords=[])
    if last:
        tgt, nb = ast.Name(id=var, ctx=ast.Store()), list(rest)
    elif mid is not None:
        k = f"_{var}_k"
        tgt = ast.Name(id=k, ctx=ast.Store())
        seti = ast.Assign(targets=[ast.Name(id=var, ctx=ast.Store())], value=ast.Name(id=k, ctx=ast.Load()))
        inc = ast.Assign(targets=[ast.Name(id=var, ctx=ast.Store())], value=ast.BinOp(left=ast.Name(id=k, ctx=ast.Load()), op=ast.Add(), right=ast.Constant(value=1)))
        ast.copy_location(seti, body[0])
        ast.copy_location(inc, body[mid])
        nb = [seti] + list(body[:mid]) + [inc] + list(body[mid + 1:])
    else:
        k = f"_{var}_k"
        tgt = ast.Name(id=k, ctx=ast.Store())
        nb = [ast.Assign(targets=[ast.Name(id=var, ctx=ast.Store())], value=ast.BinOp(left=ast.Name(id=k, ctx=ast.Load()), op=ast.Add(), right=ast.Constant(value=1)))] + list(rest)
        ast.copy_location(nb[0], body[0])
    f = ast.For(target=tgt, iter=it, body=nb, orelse=[], type_comment=None)
    ast.copy_location(f, s)
    for n in (tgt, it):
        ast.copy_location(n, s.test)
    ast.fix_missing_locations(f)
    f._sa_from_while = s
    return f


def _read_after_loop(s, fnode, var) -> bool:
    """`var` is loaded after the loop `s` (textually later, outside it) before a later statement of the loop's own block assigns it afresh."""
    inside = {id(n) for n in ast.walk(s)}
    reinit_at = None
    for blk in ast.walk(fnode):
        for fld in ("body", "orelse", "finalbody"):
            lst = getattr(blk, fld, None)
            if isinstance(lst, list) and any(x is s for x in lst):
                k0 = next(k for k, x in enumerate(lst) if x is s)
                for x in lst[k0 + 1:]:
                    if isinstance(x, ast.Assign) and any(isinstance(t_, ast.Name) and t_.id == var for t_ in x.targets) and not any(isinstance(n, ast.Name) and n.id == var for n in ast.walk(x.value)):
                        reinit_at = (x.lineno, x.col_offset)
                        break
                    if any(isinstance(n, ast.Name) and n.id == var for n in ast.walk(x)):
                        break
    for n in ast.walk(fnode):
        if isinstance(n, ast.Name) and n.id == var and isinstance(n.ctx, ast.Load) and id(n) not in inside and (n.lineno, n.col_offset) > (s.lineno, s.col_offset):
            if reinit_at is None or (n.lineno, n.col_offset) < reinit_at:
                return True
    return False


def _probe_while(s: ast.While, fnode, env):
    """`B = 1 << K; while B: BODY; B >>= 1` - a one-bit probe walked down from bit K to bit 0, the shift the last statement of the body, B not
    written elsewhere in it, no `continue`, B not read once the loop is over: the counted loop
    `for j in range(K + 1): B = 1 << (K - j); BODY`.  A second local that starts at a known integer c and is advanced by `v += 1` exactly once
    per iteration (a top-level statement of the body) and is not read after the loop is the induction variable it is: `v = c + j` before the
    increment, `v = c + j + 1` after it.  Returns the ast.For, or None when the loop is not of that shape."""
    if getattr(s, "_sa_probe", False) is None or fnode is None:
        return None

    def fail():
        s._sa_probe = None
        return None

    t = s.test
    if isinstance(t, ast.Compare) and len(t.ops) == 1 and isinstance(t.ops[0], (ast.NotEq, ast.Gt)) and isinstance(t.comparators[0], ast.Constant) and type(t.comparators[0].value) is int and t.comparators[0].value == 0:
        t = t.left
    if not isinstance(t, ast.Name) or s.orelse or len(s.body) < 2:
        return fail()
    B = t.id
    start = env.get(B)
    if not (start is not None and is_const(start) and type(start[1]) is int and start[1] > 0 and start[1] & (start[1] - 1) == 0):
        return None  # (depends on the environment: not cached)
    K = start[1].bit_length() - 1
    if K > 4096:
        return fail()
    last, rest = s.body[-1], s.body[:-1]
    one = lambda x: isinstance(x, ast.Constant) and type(x.value) is int and x.value == 1  # noqa: E731
    is_shift = (isinstance(last, ast.AugAssign) and isinstance(last.op, ast.RShift) and isinstance(last.target, ast.Name) and last.target.id == B and one(last.value)) or \
               (isinstance(last, ast.Assign) and len(last.targets) == 1 and isinstance(last.targets[0], ast.Name) and last.targets[0].id == B and isinstance(last.value, ast.BinOp)
                and isinstance(last.value.op, ast.RShift) and isinstance(last.value.left, ast.Name) and last.value.left.id == B and one(last.value.right))
    if not is_shift or B in _assigned_names(rest) or _has(rest, (ast.Continue,)) or _read_after_loop(s, fnode, B):
        return fail()
    j = f"_{B}_j"
    jl = lambda: ast.Name(id=j, ctx=ast.Load())  # noqa: E731
    setb = ast.Assign(targets=[ast.Name(id=B, ctx=ast.Store())], value=ast.BinOp(left=ast.Constant(value=1), op=ast.LShift(), right=ast.BinOp(left=ast.Constant(value=K), op=ast.Sub(), right=jl())))
    body = list(rest)
    pre = []
    for k, x in enumerate(rest):
        v = x.target.id if (isinstance(x, ast.AugAssign) and isinstance(x.op, ast.Add) and isinstance(x.target, ast.Name) and one(x.value)) else None
        if v is None or v == B:
            continue
        c0 = env.get(v)
        others = [y for y in rest if y is not x]
        if c0 is None or not (is_const(c0) and type(c0[1]) is int) or v in _assigned_names(others) or _read_after_loop(s, fnode, v):
            continue
        at = lambda d, c=c0[1]: ast.BinOp(left=ast.Constant(value=c + d), op=ast.Add(), right=jl())  # noqa: E731
        pre.append(ast.Assign(targets=[ast.Name(id=v, ctx=ast.Store())], value=at(0)))
        body[k] = ast.copy_location(ast.Assign(targets=[ast.Name(id=v, ctx=ast.Store())], value=at(1)), x)
    for n_ in [setb] + pre:
        ast.copy_location(n_, s.body[0])
    it = ast.Call(func=ast.Name(id="range", ctx=ast.Load()), args=[ast.Constant(value=K + 1)], keywords=[])
    f = ast.For(target=ast.Name(id=j, ctx=ast.Store()), iter=it, body=[setb] + pre + body, orelse=[], type_comment=None)
    ast.copy_location(f, s)
    for n_ in (f.target, it):
        ast.copy_location(n_, s.test)
    ast.fix_missing_locations(f)
    f._sa_from_while = s
    return f


def _reinitialised_before(s, fnode, var) -> bool:
    """The statement just before the loop (in the same block) assigns the counter, so an enclosing loop re-enters it afresh."""
    for n in ast.walk(fnode):
        for fld in ("body", "orelse", "finalbody"):
            blk = getattr(n, fld, None)
            if isinstance(blk, list) and s in blk:
                i = blk.index(s)
                for prev in reversed(blk[:i]):
                    if isinstance(prev, ast.Assign) and len(prev.targets) == 1 and isinstance(prev.targets[0], ast.Name) and prev.targets[0].id == var:
                        return True
                    if var in _assigned_names([prev]):
                        return False
                return False
    return False


def _desugar_match(s):
    """`match subject:` whose cases are literal values, `|` alternatives of them, optional guards and a final wildcard -> an if / elif chain on a
    temporary holding the subject (patterns that bind or destructure are not handled: None)."""
    subj = ast.Name(id="__match_subject__", ctx=ast.Load())

    def test_of(pat):
        if isinstance(pat, ast.MatchValue):
            return ast.Compare(left=subj, ops=[ast.Eq()], comparators=[pat.value])
        if isinstance(pat, ast.MatchSingleton):
            return ast.Compare(left=subj, ops=[ast.Is()], comparators=[ast.Constant(value=pat.value)])
        if isinstance(pat, ast.MatchOr):
            ts = [test_of(p) for p in pat.patterns]
            return None if any(t is None for t in ts) else ast.BoolOp(op=ast.Or(), values=ts)
        if isinstance(pat, ast.MatchAs) and pat.pattern is None and pat.name is None:
            return ast.Constant(value=True)
        return None

    node = None
    for case in reversed(s.cases):
        t = test_of(case.pattern)
        if t is None:
            return None
        if case.guard is not None:
            t = ast.BoolOp(op=ast.And(), values=[t, case.guard])
        new = ast.If(test=t, body=case.body, orelse=[node] if node is not None else [])
        ast.copy_location(new, case.body[0] if case.body else s)
        for x in ast.walk(t):
            if not hasattr(x, "lineno"):
                ast.copy_location(x, case.pattern)
        node = new
    ast.fix_missing_locations(node) if node is not None else None
    return [node] if node is not None else []
