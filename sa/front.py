"""
Front end: load and parse every module of the package under analysis.

Nothing here imports or executes pyrtcm; everything is derived from `ast` trees of the
*current* sources under <repo>/src/pyrtcm (repo root overridable with VERIF_REPO, used by the
self-test on scratch copies only).
"""

from __future__ import annotations

import ast
import os
from dataclasses import dataclass, field
from pathlib import Path

from .aliasfields import inline_buffer_aliases
from .threadflags import thread_flag_loops

PKG = "pyrtcm"


class AnalysisError(Exception):
    """The analyser cannot do its job (anchor vanished, unsupported construct, bad oracle).

    Always becomes exit 2 / ANALYSIS-ERROR, never a verdict on a property."""


def repo_root() -> Path:
    return Path(os.environ.get("VERIF_REPO", "/repo"))


@dataclass
class FuncInfo:
    module: str  # short module name, e.g. "rtcmreader"
    cls: str | None
    name: str
    node: ast.FunctionDef
    is_property: bool = False
    is_static: bool = False
    decorators: list = field(default_factory=list)

    @property
    def qualname(self) -> str:
        return f"{self.module}.{self.cls}.{self.name}" if self.cls else f"{self.module}.{self.name}"

    @property
    def params(self) -> list[str]:
        a = self.node.args
        return [x.arg for x in a.posonlyargs + a.args + a.kwonlyargs]


@dataclass
class ModInfo:
    name: str
    path: Path
    relpath: str
    source: str
    tree: ast.Module


def _inline_handler_tuples(tree: ast.Module) -> None:
    """`except NAME:` where NAME is bound once, at module level, to a tuple display of exception classes is `except (A, B, ...):` - the handler
    clauses are rewritten in place (same positions), so that every analysis sees the classes a handler catches."""
    binds: dict = {}
    for st in tree.body:
        if isinstance(st, ast.Assign) and len(st.targets) == 1 and isinstance(st.targets[0], ast.Name):
            binds.setdefault(st.targets[0].id, []).append(st.value)
        elif isinstance(st, (ast.AugAssign, ast.AnnAssign)) and isinstance(st.target, ast.Name):
            binds.setdefault(st.target.id, []).append(None)
    consts = {k: v[0] for k, v in binds.items() if len(v) == 1 and isinstance(v[0], ast.Tuple) and v[0].elts and all(isinstance(e, (ast.Name, ast.Attribute)) for e in v[0].elts)}
    if not consts:
        return
    rebound = {n.id for n in ast.walk(tree) if isinstance(n, ast.Name) and isinstance(n.ctx, (ast.Store, ast.Del))}
    for h in ast.walk(tree):
        if isinstance(h, ast.ExceptHandler) and isinstance(h.type, ast.Name) and h.type.id in consts:
            # bound exactly once in the whole module (no function rebinds it through `global`)
            if sum(1 for n in ast.walk(tree) if isinstance(n, ast.Name) and n.id == h.type.id and isinstance(n.ctx, (ast.Store, ast.Del))) != 1 or h.type.id not in rebound:
                continue
            import copy

            tup = copy.deepcopy(consts[h.type.id])
            for n in ast.walk(tup):
                ast.copy_location(n, h.type)
            h.type = tup


class Repo:
    """Parsed view of the package."""

    def __init__(self, root: Path | None = None):
        self.root = Path(root) if root else repo_root()
        self.pkgdir = self.root / "src" / PKG
        if not self.pkgdir.is_dir():
            raise AnalysisError(f"package directory {self.pkgdir} not found")
        self.modules: dict[str, ModInfo] = {}
        self.funcs: dict[str, FuncInfo] = {}
        self.classes: dict[str, ast.ClassDef] = {}  # "module.Class" -> node
        self.parents: dict[int, ast.AST] = {}
        for p in sorted(self.pkgdir.glob("*.py")):
            src = p.read_text(encoding="utf-8")
            try:
                tree = ast.parse(src, filename=str(p))
            except SyntaxError as err:
                raise AnalysisError(f"{p}: does not parse: {err}") from err
            name = p.stem
            _inline_handler_tuples(tree)
            inline_buffer_aliases(tree)  # `buf = self._buffer; buf += data` (a bytearray field used through a local): the field itself
            if os.environ.get("VERIF_NO_THREADING") != "1":
                thread_flag_loops(tree)
            self.modules[name] = ModInfo(name, p, f"src/{PKG}/{p.name}", src, tree)
            for parent in ast.walk(tree):
                for child in ast.iter_child_nodes(parent):
                    self.parents[id(child)] = parent
            self._index(name, tree)
        if not self.modules:
            raise AnalysisError("no modules parsed")

    def _index(self, mod: str, tree: ast.Module):
        for node in tree.body:
            if isinstance(node, (ast.FunctionDef, ast.AsyncFunctionDef)):
                self._add_func(mod, None, node)
            elif isinstance(node, ast.ClassDef):
                self.classes[f"{mod}.{node.name}"] = node
                for sub in node.body:
                    if isinstance(sub, (ast.FunctionDef, ast.AsyncFunctionDef)):
                        self._add_func(mod, node.name, sub)

    def _add_func(self, mod, cls, node):
        decs = [ast.unparse(d) for d in node.decorator_list]
        fi = FuncInfo(
            mod,
            cls,
            node.name,
            node,
            is_property="property" in decs,
            is_static="staticmethod" in decs,
            decorators=decs,
        )
        self.funcs[fi.qualname] = fi

    # ------------------------------------------------------------------ lookups
    def func(self, qualname: str) -> FuncInfo:
        """Public anchor lookup: a vanished anchor is an analysis error, never a pass."""
        try:
            return self.funcs[qualname]
        except KeyError:
            raise AnalysisError(f"anchor function {qualname} not found in {self.pkgdir}") from None

    def methods(self, mod: str, cls: str) -> list[FuncInfo]:
        return [f for f in self.funcs.values() if f.module == mod and f.cls == cls]

    def all_funcs(self) -> list[FuncInfo]:
        return list(self.funcs.values())

    def parent(self, node: ast.AST):
        return self.parents.get(id(node))

    def enclosing_stmt(self, node: ast.AST) -> ast.stmt:
        while node is not None and not isinstance(node, ast.stmt):
            node = self.parent(node)
        return node

    def loc(self, mod: str, node: ast.AST) -> str:
        return f"{self.modules[mod].relpath}:{getattr(node, 'lineno', 0)}"

    def relpath(self, mod: str) -> str:
        return self.modules[mod].relpath


def norm(node: ast.AST | None) -> str:
    """Normalised text of a construct (format-independent); used in report keys."""
    if node is None:
        return "<none>"
    try:
        s = ast.unparse(node)
    except Exception:  # pragma: no cover
        s = ast.dump(node)
    s = " ".join(s.split())
    return s if len(s) <= 160 else s[:157] + "..."


def walk_no_nested(node: ast.AST):
    """ast.walk that does not descend into nested function/class definitions or lambdas."""
    todo = list(ast.iter_child_nodes(node))
    while todo:
        n = todo.pop()
        yield n
        if isinstance(n, (ast.FunctionDef, ast.AsyncFunctionDef, ast.ClassDef, ast.Lambda)):
            continue
        todo.extend(ast.iter_child_nodes(n))


def is_self_attr(node: ast.AST, attr: str | None = None, selfname: str = "self") -> bool:
    return (
        isinstance(node, ast.Attribute)
        and isinstance(node.value, ast.Name)
        and node.value.id == selfname
        and (attr is None or node.attr == attr)
    )


def call_name(call: ast.Call) -> str:
    """Dotted text of a call's callee, e.g. 'self._read_bytes', 'int.from_bytes'."""
    return norm(call.func)
